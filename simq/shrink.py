"""Greedy structural minimiser over JSON cases (drop steps/ops/faults, simplify nodes, shrink ints)."""
import copy
import time

NODE_OPS = {"t", "l", "d", "call", "ref", "item", "errfut", "lazy", "none", "bad"}
ENUM_DEFAULTS = {"conv": "call", "kind": "fn", "policy": "default", "mode": "small"}


def _is_record(x):
    return isinstance(x, list) and x and isinstance(x[0], str)


def _walk(obj, path=()):
    yield path, obj
    if isinstance(obj, list):
        for i, c in enumerate(obj):
            yield from _walk(c, path + (i,))
    elif isinstance(obj, dict):
        for k, c in obj.items():
            yield from _walk(c, path + (k,))


def _get(obj, path):
    for p in path:
        obj = obj[p]
    return obj


def _set(root, path, value):
    root = copy.deepcopy(root)
    if not path:
        return value
    obj = _get(root, path[:-1])
    obj[path[-1]] = value
    return root


def _delete(root, path):
    root = copy.deepcopy(root)
    obj = _get(root, path[:-1])
    del obj[path[-1]]
    return root


def candidates(case):
    """Yields simpler variants of case, most aggressive first."""
    nodes = list(_walk(case))
    # 1. drop elements of sequences (lists that are not records), last first
    for path, obj in nodes:
        if isinstance(obj, list) and not _is_record(obj) and obj:
            if len(obj) > 3:
                half = copy.deepcopy(case)
                _get(half, path)[len(obj) // 2:] = []
                yield half
            for i in reversed(range(len(obj))):
                yield _delete(case, path + (i,))
    # 2. drop dict entries that are optional
    for path, obj in nodes:
        if isinstance(obj, dict) and path and path[-1] in ("items", "flushes", "ctx", "options", "callbacks", "faults"):
            for k in list(obj.keys()):
                yield _delete(case, path + (k,))
    # 3. simplify records
    for path, obj in nodes:
        if _is_record(obj):
            op = obj[0]
            if op == "try":
                yield _set(case, path, ["blk", obj[1]])
                yield _set(case, path, ["blk", obj[3]])
            elif op == "with":
                yield _set(case, path, ["blk", obj[2]])
            elif op in ("t", "l", "d") and len(path) and len(obj) == 2 and isinstance(obj[1], list) and obj[1] \
                    and all(isinstance(c, list) for c in obj[1]):
                for c in obj[1]:
                    if op == "d":
                        if len(c) == 2 and isinstance(c[1], list):
                            yield _set(case, path, c[1])
                    else:
                        yield _set(case, path, c)
                yield _set(case, path, ["const", 0])
            elif op in NODE_OPS:
                yield _set(case, path, ["const", 0])
    # 4. enum defaults and ints
    for path, obj in nodes:
        if path and isinstance(path[-1], str) and path[-1] in ENUM_DEFAULTS and obj != ENUM_DEFAULTS[path[-1]] and isinstance(obj, str):
            yield _set(case, path, ENUM_DEFAULTS[path[-1]])
        if isinstance(obj, bool):
            if obj:
                yield _set(case, path, False)
        elif isinstance(obj, int) and obj > 0 and path and not (isinstance(path[-1], int) and path[-1] == 0):
            yield _set(case, path, 0)
            if obj > 3:
                yield _set(case, path, obj // 2)
            if obj > 1:
                yield _set(case, path, obj - 1)


def minimise(case, fails, max_candidates=400, max_seconds=30.0):
    """fails(case) -> True if the same violation class persists. Returns (smaller case, tried)."""
    t0 = time.time()
    tried = 0
    cur = case
    progress = True
    while progress:
        progress = False
        for cand in candidates(cur):
            if tried >= max_candidates or time.time() - t0 > max_seconds:
                return cur, tried
            tried += 1
            try:
                ok = fails(cand)
            except BaseException:
                ok = False
            if ok:
                cur = cand
                progress = True
                break
    return cur, tried
