"""Static description of every check (used by the driver for budgets and evidence text)."""

_PROG_RULE = ("programs are generated from the case seed (1-16 task templates, 1-6 steps, nested tuple/list/dict yields, "
              "1-3 batch kinds, swarm-selected features and faults) and each is executed under several seeded "
              "priority/hash assignments and calling conventions; a run is non-trivial if it has >=2 tasks and >=1 "
              "flush; distinct = distinct canonical event-trace digests (task steps, flush compositions, context events)")

_NOTE = ("Trusted base: the harness itself (spec interpreter, service stub, monitors), CPython 3.12, qcore. Sampling, not "
         "enumeration: a clean batch is evidence, not proof. Both the pure-Python and the Cython-compiled build of the "
         "working tree are exercised; flush order is owned by the harness through get_priority()/__hash__ of its batches.")

FIX_COMMITS = ["b5054cf", "3c17ac6"]

PENDING = ["C08", "C09", "C10", "C11", "C12", "C13", "C14", "C15", "C16", "C17", "C18", "C19", "C20"]
NOT_APPLICABLE = [{"property_id": p, "reason": "not claimed yet: check under construction in this round (deterministic simulation does apply; see DESIGN.md section 4)"} for p in PENDING]

CATALOG = {
    "C01": {"level_text": 'Seeded exploration: every generated program is run on the real scheduler under several flush orders and calling conventions and compared, yield by yield, with a plain sequential depth-first evaluation of the same spec (and, for yield-only programs, with the pass/flush model). Evidence, not proof.', "level_note": _NOTE, "level": "exploration", "quick_cases": 1500, "quick_budget_s": 60, "rule": _PROG_RULE},
    "C02": {"level_text": 'Fault enumeration: failure positions of each base program (steps, leaves of yielded structures, items, flushes) are enumerated; in-body monitors check identity of the delivered exception, sibling completion, first-in-structure-order, TypeError for non-futures, continuation after catch and the escaping instance; the reference evaluation fixes every unaffected task.', "level_note": _NOTE, "level": "fault_enumeration", "quick_cases": 2400, "quick_budget_s": 60, "rule": _PROG_RULE + "; failure positions (every step, every leaf of every yielded structure, every item key, every flush) of each fault-free base program are enumerated 8 per base program, singly and in pairs"},
    "C03": {"level_text": 'Seeded exploration with in-body monitors (all awaited futures computed at resume, no start without an awaiter, start order of list/tuple members, no step after completion, every awaited task computed at the end) plus termination (per-case watchdog; hang = violation) and deep chains far beyond the recursion limit.', "level_note": _NOTE, "level": "exploration", "quick_cases": 1500, "quick_budget_s": 60, "rule": _PROG_RULE},
    "C04": {"level_text": 'Seeded exploration of yield-only programs: at every before-flush event the harness proves from its own state that no task of the waited computation could run; flush compositions are compared in lockstep with the pass/flush model; single-kind tree programs must use exactly critical-path-many flushes.', "level_note": _NOTE, "level": "exploration", "quick_cases": 1500, "quick_budget_s": 60, "rule": _PROG_RULE},
    "C05": {"level_text": 'Seeded exploration over 2-4 batch kinds with priority overrides and flush faults: per-batch flush count, pending/non-empty at flush, maximal priority among the batches consulted in that selection round, every item answered exactly once inside the before/after bracket with what the service set, event pairing also for raising flushes, no flush after the waited task completed (nested waits too).', "level_note": _NOTE, "level": "exploration", "quick_cases": 1500, "quick_budget_s": 60, "rule": _PROG_RULE},
    "C06": {"level_text": "Seeded exploration with harness AsyncContexts in many pending tasks: strict resume/pause alternation per context on every exit path, and an activity oracle evaluated at every task step and flush from the harness' own await graph (must be active when the owner runs or dominates the running task, must be paused when the owner cannot reach it); NonAsyncContext failure iff the pass/flush model says the task is suspended for a flush inside it.", "level_note": _NOTE, "level": "exploration", "quick_cases": 1500, "quick_budget_s": 60, "rule": _PROG_RULE},
    "C07": {"level_text": 'Seeded exploration with nested/concurrent scoped overrides: global LIFO of context activations, every scoped read compared with the set of values sequential dynamic scoping allows, and restoration of every overridden value after the computation and again after abandoned generators are finalised.', "level_note": _NOTE, "level": "exploration", "quick_cases": 1500, "quick_budget_s": 60, "rule": _PROG_RULE},
}
