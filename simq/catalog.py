"""Static description of every check (used by the driver for budgets and evidence text)."""

_PROG_RULE = ("programs are generated from the case seed (1-16 task templates, 1-6 steps, nested tuple/list/dict yields, "
              "1-3 batch kinds, swarm-selected features and faults) and each is executed under several seeded "
              "priority/hash assignments and calling conventions; a run is non-trivial if it has >=2 tasks and >=1 "
              "flush; distinct = distinct canonical event-trace digests (task steps, flush compositions, context events)")

CATALOG = {
    "C01": {"level": "exploration", "quick_cases": 1500, "quick_budget_s": 60, "rule": _PROG_RULE},
    "C02": {"level": "fault_enumeration", "quick_cases": 2400, "quick_budget_s": 60, "rule": _PROG_RULE + "; failure positions (every step, every leaf of every yielded structure, every item key, every flush) of each fault-free base program are enumerated 8 per base program, singly and in pairs"},
    "C03": {"level": "exploration", "quick_cases": 1500, "quick_budget_s": 60, "rule": _PROG_RULE},
    "C04": {"level": "exploration", "quick_cases": 1500, "quick_budget_s": 60, "rule": _PROG_RULE},
    "C05": {"level": "exploration", "quick_cases": 1500, "quick_budget_s": 60, "rule": _PROG_RULE},
    "C06": {"level": "exploration", "quick_cases": 1500, "quick_budget_s": 60, "rule": _PROG_RULE},
    "C07": {"level": "exploration", "quick_cases": 1500, "quick_budget_s": 60, "rule": _PROG_RULE},
}
