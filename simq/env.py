"""Worker-side environment: captured diagnostic streams, simulated clock, asynq import check.

Import this module *before* asynq: asynq binds `from sys import stdout, stderr` at import time.
"""
import io
import os
import random
import sys


class Capture(io.TextIOBase):
    """Diagnostic sink: counts what asynq prints, keeps a bounded tail."""

    def __init__(self):
        self.nwrites = 0
        self.nchars = 0
        self.tail = []

    def write(self, s):
        self.nwrites += 1
        self.nchars += len(s)
        if len(self.tail) < 50:
            self.tail.append(s[:200])
        return len(s)

    def flush(self):
        pass

    def isatty(self):
        return False

    def reset(self):
        self.nwrites = 0
        self.nchars = 0
        self.tail = []


REAL_STDOUT = sys.stdout
REAL_STDERR = sys.stderr
capture = Capture()

if os.environ.get("SIMQ_NO_CAPTURE") != "1":
    sys.stdout = capture
    sys.stderr = capture


class SimClock(object):
    """Integer-microsecond simulated clock; every reading advances it by a seeded increment."""

    def __init__(self):
        self.configure({"seed": 0, "mode": "small"})

    def configure(self, spec):
        self.rng = random.Random(spec.get("seed", 0))
        self.mode = spec.get("mode", "small")
        self.now = 1_700_000_000_000_000
        self.start = self.now
        self.readings = 0
        self.slept = 0
        self.maxinc = 0

    def _inc(self):
        r = self.rng.random()
        m = self.mode
        if m == "small":
            inc = 1 + int(r * 50)
        elif m == "huge":
            # microseconds to hours per reading (heavy tail)
            inc = int(10 ** (self.rng.random() * 10.4))
        elif m == "zero":
            inc = 0
        else:  # mixed
            if r < 0.85:
                inc = 1 + int(self.rng.random() * 1000)
            else:
                inc = int(10 ** (self.rng.random() * 10.4))
        if inc > self.maxinc:
            self.maxinc = inc
        return inc

    def utime(self):
        self.readings += 1
        self.now += self._inc()
        return self.now

    def time(self):
        self.readings += 1
        self.now += self._inc()
        return self.now / 1e6

    def sleep(self, s):
        self.slept += 1
        self.now += int(s * 1e6)

    def elapsed(self):
        return self.now - self.start


clock = SimClock()


class _TimeModule(object):
    """Stands in for the `time` module inside asynq.scheduler / asynq.tools."""

    def time(self):
        return clock.time()

    def sleep(self, s):
        clock.sleep(s)


def install(expect_build=None):
    """Imports asynq, checks it is the build we were told to test, installs the clock."""
    import asynq
    import asynq.scheduler
    import asynq.tools

    path = asynq.scheduler.__file__
    want_dir = os.environ.get("SIMQ_BUILD_DIR")
    if want_dir and not os.path.realpath(path).startswith(os.path.realpath(want_dir) + os.sep):
        raise SystemExit("HARNESS-ERROR: asynq imported from %s, expected under %s" % (path, want_dir))
    is_so = path.endswith(".so")
    if expect_build == "pure" and is_so:
        raise SystemExit("HARNESS-ERROR: expected pure build, got %s" % path)
    if expect_build == "cy" and not is_so:
        raise SystemExit("HARNESS-ERROR: expected compiled build, got %s" % path)
    tm = _TimeModule()
    asynq.scheduler.utime = clock.utime
    asynq.scheduler.time = tm
    asynq.tools.utime = clock.utime
    asynq.tools.time = tm
    asynq.scheduler.reset()
    # syntax highlighting of diagnostics costs ~ms per call and is not under test
    return asynq
