"""Program simulation: run one spec on the real scheduler, then judge it against the oracles."""
import hashlib
import sys

from . import real, model, prog
from .prog import HarnessError, errtok

sys.setrecursionlimit(20000)


def _recv_text(inst):
    return [(k, v[0]) for k, v in inst.recv]


def _otxt(o):
    return "the value %r" % (o[1],) if o[0] == "V" else "the error %s (%s)" % (errtok(o[1]), type(o[1]).__name__)


def execute(spec, monitors, staged=None, check_values=True):
    """Runs spec once. Returns dict(violations=[(prop, check, msg)], stats=..., digest=..., outcome=...)."""
    B = real.RealBackend(spec, monitors)
    out = B.run()
    viol = [(p, c, m) for (p, c, m, n) in B.violations]
    record = {}
    for tok, (k, v) in B.record.items():
        record[tok] = (k, v)
    stats = {
        "events": len(B.trace),
        "flushes": len(B.flushes),
        "sim_us": real.simenv.clock.elapsed(),
        "probes": dict(B.probes),
        "faults": dict(B.faults_fired),
        "tasks": len(B.insts),
        "diag_writes": real.simenv.capture.nwrites,
    }
    # service contract: an item the (fault-free) flush answered with a value holds exactly that value
    ifaults = spec.get("faults", {}).get("items", {})
    ffaults = spec.get("faults", {}).get("flushes", {})
    seen_kind = {}
    for rec in B.flushes:
        seen_kind[rec["kind"]] = seen_kind.get(rec["kind"], 0) + 1
        if ("%d#%d" % (rec["kind"], seen_kind[rec["kind"]])) in ffaults or "end" not in rec:
            continue
        for tok in rec["tokens"]:
            it = B.items.get(tok)
            if it is None or tok.startswith(("x", "s:")) or ("%d:%s" % (rec["kind"], it.key)) in ifaults:
                continue
            got = record.get(tok)
            want = "%d:%s" % (rec["kind"], it.key)
            if got is not None and (got[0] != "V" or got[1] != want):
                m = "item %s was answered with the value %r by its (fault-free) flush but holds %r" % (tok, want, got[1] if got[0] == "V" else errtok(got[1]))
                viol.append(("C05", "item-answer", m))
                viol.append(("C01", "item-answer", m))
                break
    # ... and, faults included: every item of a flushed batch ends with exactly what the flush body
    # did for it - the value or error instance it set, else the very exception the body raised or
    # cancelled the batch with, else an AssertionError ("not set")
    nrec = {}
    for rec in B.flushes:
        nrec[(rec["kind"], rec["gen"])] = nrec.get((rec["kind"], rec["gen"]), 0) + 1
    for rec in B.flushes:
        if rec.get("how") is None or nrec[(rec["kind"], rec["gen"])] != 1 or rec.get("cancelled"):
            continue  # (body still running / re-entered / it cancelled other batches: judged elsewhere)
        how, herr = rec["how"]
        bad = None
        for tok in rec["tokens"]:
            if tok.startswith(("x", "s:")) or tok not in B.items:
                continue
            got = B.record.get(tok)
            if got is None:
                bad = "item %s of the flushed batch was never completed" % tok
            elif tok in rec["set"]:
                want = rec["set"][tok]
                if got[0] != want[0] or (got[1] is not want[1] if want[0] == "E" else got[1] != want[1]):
                    bad = "item %s was answered %s by the flush but holds %s" % (tok, _otxt(want), _otxt(got))
            elif how in ("raised", "cancelled"):
                if got[0] != "E" or got[1] is not herr:
                    bad = "item %s was left unanswered by a flush that %s %s but holds %s" % (
                        tok, "raised" if how == "raised" else "cancelled its batch with", errtok(herr), _otxt(got))
            elif got[0] != "E" or type(got[1]) is not AssertionError:
                bad = "item %s was left unanswered by a flush that returned normally but holds %s" % (tok, _otxt(got))
            if bad:
                break
        if bad:
            for pid in ("C05", "C02", "C01"):
                viol.append((pid, "item-outcome", bad))
            break
    res = {"violations": viol, "stats": stats, "B": B}
    real_out = ("V", repr(out[1])) if out[0] == "V" else ("E", errtok(out[1]))
    res["outcome"] = real_out
    if isinstance(out[1], HarnessError):
        raise out[1]
    # identity of the escaping exception (C02)
    if out[0] == "E" and getattr(B, "root_computed", False) and getattr(B, "root_error", None) is None \
            and spec["root"].get("conv") != "wrapped" and not str(getattr(out[1], "tag", "")).startswith("cb:"):
        viol.append(("C01", "escape-without-failure", "the outermost call raised %s although the awaited task completed with a value" % errtok(out[1])))
    if out[0] == "E" and "C02" in monitors:
        te = getattr(B, "root_error", None)
        if te is not None and te is not out[1] and spec["root"].get("conv") != "wrapped":
            viol.append(("C02", "escape-identity", "value() raised %s which is not the task's error() %s" % (errtok(out[1]), errtok(te))))
    use_staged = staged if staged is not None else False
    M = None
    if check_values:
        mode = "staged" if use_staged else "seq"
        sched_flushes = [f for f in B.flushes if f["sched"]]
        M = model.ModelBackend(spec, record, mode=mode, flushes=sched_flushes)
        try:
            mroot = M.run_root()
        except model.ModelGap as g:
            viol.append(("MODEL", g.check, str(g)))
            mroot = None
        except RecursionError:
            mroot = None
            res["model_skipped"] = "recursion"
        if mroot is not None:
            _compare(spec, B, M, mroot, real_out, viol, use_staged)
    if spec.get("tree_only") and spec["kinds"] == 1 and "C04" in monitors and M is not None:
        M2 = M
        if use_staged:
            M2 = model.ModelBackend(spec, record, mode="seq")
            try:
                M2.run_root()
            except (model.ModelGap, RecursionError):
                M2 = None
        if M2 is not None:
            nreal = len([f for f in B.flushes if f["sched"]])
            if nreal != M2.crit:
                viol.append(("C04", "flush-count", "%d flushes performed, the longest chain of sequentially dependent requests is %d"
                             % (nreal, M2.crit)))
            stats["probes"]["crit_path_checked"] = 1
            stats["probes"]["crit_path_ge2"] = 1 if M2.crit >= 2 else 0
    res["M"] = M
    h = hashlib.blake2b(digest_size=8)
    for e in B.trace:
        h.update(repr(e).encode())
    res["digest"] = h.hexdigest()
    res["trace"] = list(B.trace)  # (finalisers running after this point may still append to B.trace)
    return res


def _compare(spec, B, M, mroot, real_out, viol, staged):
    mout = mroot.inst.outcome
    if mout != real_out:
        p = "C02" if (mout[0] == "E" or real_out[0] == "E") else "C01"
        viol.append((p, "root-outcome", "root gave %r, sequential evaluation gives %r" % (real_out, mout)))
        if p == "C02":
            viol.append(("C01", "root-outcome", "root gave %r, sequential evaluation gives %r" % (real_out, mout)))
    # per task: what every yield received, and the final outcome
    for tok, mi in M.insts.items():
        ri = B.insts.get(tok)
        if ri is None:
            viol.append(("C01", "task-missing", "task %s exists in the reference evaluation only" % tok))
            continue
        if mi.started != ri.started:
            if ri.started and not mi.started:
                viol.append(("C03", "started-unawaited", "task %s started but sequential evaluation never runs it" % tok))
            else:
                viol.append(("C03", "never-started", "task %s never started although it is awaited" % tok))
            continue
        if not mi.started:
            continue
        a, b = _recv_text(ri), _recv_text(mi)
        if mi.done and ri.done:
            if a != b:
                i = next((j for j in range(min(len(a), len(b))) if a[j] != b[j]), min(len(a), len(b)))
                anyerr = any(k in ("E", "SE", "C") for k, _ in a[i:i + 1] + b[i:i + 1])
                p = "C02" if anyerr else "C01"
                viol.append((p, "received", "task %s: receipt #%d is %r, reference %r" % (
                    tok, i, a[i] if i < len(a) else None, b[i] if i < len(b) else None)))
                if p == "C02":
                    viol.append(("C01", "received", "task %s receipt #%d differs from reference" % (tok, i)))
            if ri.outcome != mi.outcome and "nonasync" in (ri.outcome[1], mi.outcome[1]):
                viol.append(("C06", "nonasync-iff", "task %s finished with %r, but the pass/flush model (suspended inside a NonAsyncContext iff a flush is needed) predicts %r" % (tok, ri.outcome, mi.outcome)))
            if ri.outcome != mi.outcome:
                p = "C02" if (ri.outcome[0] == "E" or mi.outcome[0] == "E") else "C01"
                viol.append((p, "task-outcome", "task %s finished with %r, reference %r" % (tok, ri.outcome, mi.outcome)))
        elif mi.done and not ri.done:
            viol.append(("C03", "awaited-uncomputed", "task %s is awaited and completes in the reference, but was left uncomputed" % tok))
        elif ri.done and not mi.done:
            viol.append(("C03", "completed-unexpectedly", "task %s completed but the reference leaves it pending" % tok))
    for tok in B.insts:
        if tok not in M.insts:
            viol.append(("C01", "task-extra", "task %s was created only in the real run" % tok))
    # scoped reads (C07)
    poss = M.possible_reads(B.defaults)
    for tok, reads in B.reads.items():
        pr = poss.get(tok)
        if pr is None:
            continue
        for i, val in enumerate(reads):
            if i < len(pr) and val not in pr[i]:
                viol.append(("C07", "scoped-read", "task %s read #%d saw %r, sequential scoping allows %r" % (tok, i, val, sorted(pr[i]))))
                if len(pr[i]) == 1:
                    viol.append(("C01", "scoped-read", "task %s read #%d saw %r, sequential evaluation reads %r" % (tok, i, val, sorted(pr[i])[0])))
                break
    if staged:
        real_comp = [(f["kind"], sorted(t for t in f["tokens"] if not t.startswith("x"))) for f in B.flushes if f["sched"]]
        if real_comp[:len(M.compositions)] != M.compositions:
            j = next(i for i in range(len(M.compositions)) if i >= len(real_comp) or real_comp[i] != M.compositions[i])
            viol.append(("C04", "composition", "flush #%d carried %r, the pass/flush model predicts %r" % (
                j + 1, real_comp[j] if j < len(real_comp) else None, M.compositions[j])))
        if len(real_comp) > len(M.compositions):
            viol.append(("C05", "extra-flush", "%d scheduler flushes, the pass/flush model needs %d" % (len(real_comp), len(M.compositions))))
