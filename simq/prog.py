"""Spec interpreter shared by the real backend (asynq) and the model backend.

A *program* is a JSON-able spec (see simq/gen.py).  One generic generator body executes a
template's steps, yielding backend futures and recording what it receives.  The backend `B`
supplies: futures (call/item/const/errfut/lazy), contexts, sync calls, event recording and
(real backend only) the in-body monitors.
"""
import hashlib


class HarnessError(BaseException):
    """A bug or an impossible situation in the harness itself (never a VIOLATION)."""


FALSY = [False]  # per-run knob: user exception instances are falsy (an exception class with __len__/__bool__)


class SimError(Exception):
    def __init__(self, tag):
        Exception.__init__(self, tag)
        self.tag = tag

    def __bool__(self):
        return not FALSY[0]


class SimStop(StopIteration):
    """A StopIteration carried by a future as its error (an exhausted next() inside a service)."""

    def __init__(self, tag):
        StopIteration.__init__(self, tag)
        self.tag = tag


class OddEq(object):
    def __init__(self, n):
        self.n = n

    def __eq__(self, other):
        raise ValueError("the truth value of a comparison with OddEq is ambiguous")

    __ne__ = __eq__
    __hash__ = None

    def __bool__(self):
        raise ValueError("the truth value of OddEq is ambiguous")

    def __repr__(self):
        return "OddEq(%d)" % self.n


class SimBaseError(BaseException):
    """A user-defined BaseException subclass (thorough tiers)."""

    def __init__(self, tag):
        BaseException.__init__(self, tag)
        self.tag = tag

    def __bool__(self):
        return not FALSY[0]


class ModelResult(GeneratorExit):
    def __init__(self, value):
        GeneratorExit.__init__(self, "ModelResult")
        self.result = value


def errtok(e):
    """Canonical, build-independent name of an exception (identity is checked separately)."""
    tag = getattr(e, "tag", None)
    if isinstance(tag, str):
        return tag
    if isinstance(e, TypeError):
        return "TypeError"
    if isinstance(e, AssertionError):
        msg = str(e)
        if "wasn't set on batch flush" in msg:
            return "unset"
        if "cannot yield while" in msg:
            return "nonasync"
        return "AssertionError"
    return type(e).__name__


def h(obj):
    return hashlib.blake2b(repr(obj).encode(), digest_size=5).hexdigest()


class Inst(object):
    """One instance of a template = one task (or one plain call)."""

    __slots__ = (
        "token", "tmpl", "vars", "n", "recv", "task", "started", "done", "awaiting", "syncing",
        "ctxs", "nyield", "parent", "outcome", "struct_paths", "depth", "closed", "nstep", "escaped",
        "start_at", "done_at", "nc", "yield_n0", "shared", "shared_awaited",
    )

    def __init__(self, token, tmpl, args, parent=None):
        self.token = token
        self.tmpl = tmpl
        self.vars = list(args)
        self.n = 0
        self.recv = []
        self.task = None
        self.started = False
        self.done = False
        self.awaiting = None
        self.syncing = None
        self.ctxs = []
        self.nyield = 0
        self.nstep = 0
        self.parent = parent
        self.outcome = None
        self.closed = False
        self.escaped = None
        self.nc = 0
        self.yield_n0 = 0
        self.shared = False
        self.shared_awaited = False
        self.start_at = None
        self.done_at = None
        self.depth = 0 if parent is None else parent.depth + 1

    def __repr__(self):
        return "<Inst %s>" % self.token


def flatten(struct, out=None, path=(), plain=True):
    """Futures (and non-future leaves) of a yielded structure in *structure order*.

    Yields (leaf, path, through_lists_only)."""
    if out is None:
        out = []
    t = type(struct)
    if struct is None:
        pass
    elif t is tuple or t is list:
        for i, c in enumerate(struct):
            flatten(c, out, path + (i,), plain)
    elif t is dict:
        for k, c in struct.items():
            flatten(c, out, path + (k,), False)
    else:
        out.append((struct, path, plain))
    return out


def build(B, inst, node):
    k = node[0]
    if k == "t":
        return tuple([build(B, inst, c) for c in node[1]])
    if k == "l":
        return [build(B, inst, c) for c in node[1]]
    if k == "d":
        return {key: build(B, inst, c) for key, c in node[1]}
    return build_leaf(B, inst, node)


def build_leaf(B, inst, node):
    k = node[0]
    if k == "call":
        tmpl = node[1]
        if not isinstance(tmpl, int) or tmpl <= inst.tmpl or tmpl >= len(B.spec["templates"]):
            return B.const(inst, "nocall")
        args = []
        if inst.vars:
            args = [inst.vars[i % len(inst.vars)] for i in node[2]]
            for a in args:
                B.handed_out(a)
        child = Inst("%s.%d" % (inst.token, inst.n), tmpl, args, inst)
        inst.n += 1
        return B.call(inst, child)
    if k == "ref":
        if not inst.vars:
            return B.const(inst, "noref")
        return inst.vars[node[1] % len(inst.vars)]
    if k == "item":
        tok = "%s.i%d" % (inst.token, inst.n)
        inst.n += 1
        return B.item(inst, tok, node[1] % B.spec["kinds"], node[2])
    if k == "dd":
        return B.dd(inst, node[1])
    if k == "const":
        return B.const(inst, node[1])
    if k == "errfut":
        tok = "%s@%s.%d" % (node[1], inst.token, inst.n)
        inst.n += 1
        return B.errfut(inst, tok)
    if k == "lazy":
        tok = "%s@%s.%d" % (node[2], inst.token, inst.n)
        inst.n += 1
        return B.lazy(inst, node[1], tok)
    if k == "none":
        return None
    if k == "bad":
        return node[1]  # a raw non-future python value
    if k in ("t", "l", "d"):
        return build(B, inst, node)
    raise HarnessError("bad node %r" % (node,))


def task_value(inst, mode):
    if mode == "last":
        for kind, v in reversed(inst.recv):
            if kind in ("V", "SV"):
                return v[1]
    if mode == "const":
        return ("k", inst.tmpl)
    if mode == "oddeq":
        # a result object whose == does not answer with a bool (like an array) - nothing in the
        # scheduler has any business comparing results
        return OddEq(inst.tmpl)
    if mode == "excval":
        # an exception *instance* returned as an ordinary value (never raised)
        return ValueError("returned-as-value-%d" % inst.tmpl)
    return "%s=%s" % (inst.token, h([(k, v[0]) for k, v in inst.recv]))


def body(B, inst):
    """The generic task body. A generator; returns the task's value."""
    B.on_start(inst)
    sig = yield from run_block(B, inst, B.spec["templates"][inst.tmpl]["steps"])
    if sig is None:
        val = task_value(inst, "digest")
    else:
        val = sig[1]
    B.on_return(inst, val)
    return val


def run_block(B, inst, steps):
    for st in steps:
        sig = yield from run_step(B, inst, st)
        if sig is not None:
            return sig
    return None


def _rec_val(inst, kind, val):
    # keep the raw value (for "last") and its canonical text (for digests / comparison)
    inst.recv.append((kind, (repr(val), val)))


def _rec_err(inst, kind, e):
    inst.recv.append((kind, (errtok(e), None)))


def run_step(B, inst, st):
    op = st[0]
    if op == "y":
        inst.yield_n0 = inst.n
        struct = build(B, inst, st[1])
        B.pre_yield(inst, struct)
        try:
            val = yield struct
        except GeneratorExit:
            B.on_closed(inst)
            raise
        except BaseException as e:
            B.post_yield(inst, struct, None, e)
            _rec_err(inst, "E", e)
            raise
        else:
            B.post_yield(inst, struct, val, None)
            _rec_val(inst, "V", val)
        return None
    if op == "c":
        inst.vars.append(build_leaf(B, inst, st[1]))
        return None
    if op == "s":
        B.pre_sync(inst, st)
        try:
            val = B.sync(inst, st[1], st[2] if len(st) > 2 else "call")
        except GeneratorExit:
            raise
        except BaseException as e:
            B.post_sync(inst, None, e)
            _rec_err(inst, "SE", e)
            raise
        else:
            B.post_sync(inst, val, None)
            _rec_val(inst, "SV", val)
        return None
    if op == "raise":
        tok = "%s@%s.%d" % (st[1], inst.token, inst.n)
        inst.n += 1
        B.ev("raise", inst.token, tok)
        if len(st) > 2 and st[2] == "base":
            raise SimBaseError(tok)
        raise SimError(tok)
    if op == "try":
        catch = st[2]
        try:
            sig = yield from run_block(B, inst, st[1])
            return sig
        except GeneratorExit:
            raise
        except HarnessError:
            raise
        except BaseException as e:
            if not isinstance(e, Exception) and catch != "base":
                raise
            if catch == "sim" and not isinstance(e, SimError):
                raise
            if catch not in ("sim", "all", "base"):
                raise
            if type(e).__name__ == "CaseTimeout":
                raise
            err = e
        B.on_caught(inst, err)
        _rec_err(inst, "C", err)
        err = None
        sig = yield from run_block(B, inst, st[3])
        return sig
    if op == "with":
        cm = B.make_ctx(inst, st[1])
        B.ctx_enter(inst, cm)
        try:
            with cm:
                B.ctx_entered(inst, cm)
                sig = yield from run_block(B, inst, st[2])
        finally:
            B.ctx_exit(inst, cm)
        return sig
    if op == "with2":
        # two contexts left in the order they were entered (not nested): enter A, enter B,
        # body 1, leave A, body 2 (B alone spans its suspensions), leave B - what a helper
        # generator that keeps a with-block open between its yields does to its caller
        a = B.make_ctx(inst, st[1])
        b = B.make_ctx(inst, st[2])
        B.ctx_enter(inst, a)
        a.__enter__()
        B.ctx_entered(inst, a)
        a_open = True
        b_open = False
        try:
            B.ctx_enter(inst, b)
            b.__enter__()
            B.ctx_entered(inst, b)
            b_open = True
            sig = yield from run_block(B, inst, st[3])
            if sig is None:
                a_open = False
                try:
                    a.__exit__(None, None, None)
                finally:
                    B.ctx_exit(inst, a)
                sig = yield from run_block(B, inst, st[4])
        finally:
            import sys as _sys
            ei = _sys.exc_info()
            if b_open:
                try:
                    b.__exit__(*ei)
                finally:
                    B.ctx_exit(inst, b)
            if a_open:
                try:
                    a.__exit__(*ei)
                finally:
                    B.ctx_exit(inst, a)
        return sig
    if op == "opt":
        B.set_option(inst, st[1], st[2])
        return None
    if op == "aio":
        B.aio_call(inst)
        return None
    if op == "ret":
        return ("ret", task_value(inst, st[1]))
    if op == "res":
        val = task_value(inst, st[1])
        B.on_return(inst, val)
        B.result(val)
        raise HarnessError("result() returned")
    if op == "blk":
        sig = yield from run_block(B, inst, st[1])
        return sig
    if op == "probe":
        B.probe(inst, st)
        return None
    raise HarnessError("bad step %r" % (st,))
