"""Model backend: the two executable oracles.

mode="seq":    plain sequential depth-first evaluation (oracle 1, *what*): every awaited future
               is evaluated to completion in structure order; no batches, no scheduler.
mode="staged": pass/flush model (oracle 2, *when*): run everything runnable, then complete the
               batch the implementation chose (the choice is the only free variable), repeat.

Item outcomes come from the service's own record of what each real flush set (`record`), so the
model never guesses a schedule-dependent fact.
"""
from . import prog
from .prog import HarnessError, SimError, ModelResult, Inst, errtok


class ModelGap(Exception):
    """The model could not follow the real run (a discrepancy, reported by the caller)."""

    def __init__(self, check, msg):
        Exception.__init__(self, msg)
        self.check = check


class MFut(object):
    __slots__ = ("kind", "done", "val", "err", "tok", "inst", "gen", "awaiting", "deps",
                 "mode", "mkind", "key", "na")

    def __init__(self, kind, tok=None):
        self.kind = kind
        self.tok = tok
        self.done = False
        self.val = None
        self.err = None
        self.inst = None
        self.gen = None
        self.awaiting = None
        self.deps = ()
        self.na = 0

    def set(self, val=None, err=None):
        assert not self.done
        self.done = True
        self.val = val
        self.err = err


class _MCtx(object):
    def __init__(self, B, inst, spec):
        self.B = B
        self.inst = inst
        self.spec = spec

    def __enter__(self):
        k = self.spec[0]
        if k == "na":
            self.inst.task.na += 1
        elif k == "sv":
            self.B.own[self.inst.token].append((self.spec[1] % max(1, self.B.spec["svs"]), self.spec[2]))
        elif k == "attr":
            self.B.own[self.inst.token].append(("attr", self.spec[1]))
        return self

    def __exit__(self, *a):
        k = self.spec[0]
        if k == "na":
            self.inst.task.na -= 1
        elif k in ("sv", "attr"):
            self.B.own[self.inst.token].pop()
        return False


class ModelBackend(object):
    def __init__(self, spec, record, mode="seq", flushes=None):
        self.spec = spec
        self.record = record  # item token -> ("V", value) | ("E", errtok)
        self.mode = mode
        self.flushes = list(flushes or [])  # staged: real flush sequence
        self.nflush = 0
        self.insts = {}
        self.own = {}
        self.reads = {}  # token -> list of own-override snapshots at read points
        self.awaiters = {}  # token -> list of (parent token, snapshot)
        self.batches = [[] for _ in range(spec["kinds"])]
        self.compositions = []  # staged: (kind, sorted tokens) per model flush
        self.started_at_flush = []
        self.level = {}  # critical path: token -> request level of items
        self.events = []
        self.cur = []  # running chain
        self.crit = 0
        self.lvl_stack = [0]
        self.flevel = {}
        self.clevel = {}
        self.tlevel = {}

    # ---- recording -------------------------------------------------------------------------
    def ev(self, *a):
        pass

    def on_start(self, inst):
        inst.started = True
        self.reads.setdefault(inst.token, []).append(tuple(self.own[inst.token]))

    def on_return(self, inst, val):
        pass

    def on_closed(self, inst):
        inst.closed = True

    def on_caught(self, inst, e):
        pass

    def probe(self, inst, st):
        pass

    def set_option(self, inst, name, value):
        pass

    def aio_call(self, inst):
        pass

    def result(self, val):
        raise ModelResult(val)

    def _read(self, inst):
        self.reads[inst.token].append(tuple(self.own[inst.token]))

    def pre_yield(self, inst, struct):
        snap = tuple(self.own[inst.token])
        for leaf, path, plain in prog.flatten(struct):
            if isinstance(leaf, MFut) and leaf.kind == "task":
                self.awaiters[leaf.inst.token].append((inst.token, snap))

    def post_yield(self, inst, struct, val, err):
        self._read(inst)

    def pre_sync(self, inst, st):
        pass

    def post_sync(self, inst, val, err):
        self._read(inst)

    # ---- futures ---------------------------------------------------------------------------
    def _register(self, inst, task):
        self.insts[inst.token] = inst
        self.own[inst.token] = []
        self.awaiters[inst.token] = []
        inst.task = task

    def call(self, parent, child):
        t = MFut("task", child.token)
        t.inst = child
        self._register(child, t)
        if self.spec["templates"][child.tmpl].get("kind") == "proxy":
            pass
        return t

    def item(self, inst, tok, kind, key):
        f = MFut("item", tok)
        f.mkind = kind
        f.key = key
        self.batches[kind].append(f)
        self.clevel[id(f)] = self.tlevel.get(inst.token, 0)
        return f

    def handed_out(self, fut):
        pass

    def dd(self, inst, key):
        f = MFut("const")
        f.set(("dd", key))
        return f

    def const(self, inst, v):
        f = MFut("const")
        f.set(v)
        return f

    def errfut(self, inst, tok):
        f = MFut("err")
        f.set(None, (prog.SimStop if tok.startswith("stop") else SimError)(tok))
        return f

    def lazy(self, inst, mode, tok):
        f = MFut("lazy", tok)
        f.mode = mode
        return f

    def make_ctx(self, inst, spec):
        return _MCtx(self, inst, spec)

    def ctx_enter(self, inst, cm):
        pass

    def ctx_entered(self, inst, cm):
        pass

    def ctx_exit(self, inst, cm):
        pass

    # ---- evaluation ------------------------------------------------------------------------
    def unwrap(self, struct):
        t = type(struct)
        if struct is None:
            return None
        if isinstance(struct, MFut):
            if not struct.done:
                raise HarnessError("model unwrap of unfinished future")
            if struct.err is not None:
                raise struct.err
            return struct.val
        if t is tuple:
            return tuple([self.unwrap(c) for c in struct])
        if t is list:
            return [self.unwrap(c) for c in struct]
        if t is dict:
            return {k: self.unwrap(c) for k, c in struct.items()}
        raise TypeError("Cannot unwrap an object of type '%s'" % t)

    def _deps(self, struct, out):
        # asynq's extraction order (reversed for list/tuple, forward for dict): only used to
        # mirror *a* legal order inside a pass; flush compositions do not depend on it.
        t = type(struct)
        if struct is None:
            pass
        elif isinstance(struct, MFut):
            out.append(struct)
        elif t is tuple or t is list:
            for c in reversed(struct):
                self._deps(c, out)
        elif t is dict:
            for c in struct.values():
                self._deps(c, out)
        return out

    def step(self, t):
        """Advance task t by one resume."""
        inst = t.inst
        self.cur.append(inst.token)
        try:
            try:
                if t.gen is None:
                    if t.done:
                        raise HarnessError("step of finished model task")
                    t.gen = self._make_gen(inst)
                    struct = t.gen.send(None)
                else:
                    try:
                        val = self.unwrap(t.awaiting)
                    except BaseException as e:
                        t.awaiting = None
                        struct = t.gen.throw(e)
                    else:
                        t.awaiting = None
                        struct = t.gen.send(val)
            except StopIteration as e:
                self._finish(t, e.value, None)
                return
            except ModelResult as e:
                self._finish(t, e.result, None)
                return
            except HarnessError:
                raise
            except GeneratorExit:
                self._finish(t, None, None)
                return
            except BaseException as e:
                self._finish(t, None, e)
                return
            t.awaiting = struct
            t.deps = self._deps(struct, [])
        finally:
            self.cur.pop()

    def _make_gen(self, inst):
        kind = self.spec["templates"][inst.tmpl].get("kind", "fn")
        return prog.body(self, inst)

    def _finish(self, t, val, err):
        t.gen = None
        t.awaiting = None
        t.deps = ()
        t.set(val, err)
        t.inst.done = True
        t.inst.outcome = ("V", repr(val)) if err is None else ("E", errtok(err))

    def blocked(self, t):
        for d in t.deps:
            if not d.done:
                return True
        return False

    def compute_lazy(self, f):
        if f.done:
            return
        if f.mode == "ok":
            f.set("lz:" + f.tok)
        else:
            f.set(None, SimError(f.tok))

    # sequential oracle
    def force(self, f, base=0):
        """Evaluates f to completion; returns its completion level (number of sequentially
        dependent flush rounds before it is available, given it is requested at level `base`)."""
        if f.done:
            return self.flevel.get(id(f), 0)
        if f.kind == "item":
            self._resolve_item(f)
            lv = self.flevel[id(f)] = self.clevel.get(id(f), base) + 1
            return lv
        elif f.kind == "lazy":
            self.compute_lazy(f)
            return 0
        elif f.kind == "task":
            cur = base
            self.tlevel[f.tok] = cur
            while not f.done:
                self.step(f)
                if f.done:
                    break
                lv = cur
                for leaf, path, plain in prog.flatten(f.awaiting):
                    if isinstance(leaf, MFut):
                        lv = max(lv, self.force(leaf, cur))
                cur = lv
                self.tlevel[f.tok] = cur
            self.flevel[id(f)] = cur
            return cur
        else:
            raise HarnessError("force %s" % f.kind)

    def _resolve_item(self, f):
        if f.tok not in self.record:
            raise ModelGap("item-never-flushed", "the model awaits item %s which no real flush completed" % f.tok)
        kind, v = self.record[f.tok]
        if kind == "V":
            f.set(v)
        else:
            f.set(None, v)

    # staged oracle
    def run(self, t):
        if t.kind == "item":
            return
        if t.kind == "lazy":
            self.compute_lazy(t)
            return
        if t.kind != "task":
            return
        while not t.done:
            if t.gen is not None and self.blocked(t):
                for d in reversed(t.deps):
                    if not d.done:
                        self.run(d)
                if self.blocked(t):
                    # left suspended for a flush
                    if t.na > 0:
                        gen = t.gen
                        err = AssertionError("Task cannot yield while NonAsyncContext is active")
                        self._finish(t, None, err)
                        gen.close()
                    return
            else:
                self.step(t)

    def wait(self, root):
        while not root.done:
            self.run(root)
            if root.done:
                break
            self.flush_next(root)

    def flush_next(self, root):
        if self.nflush >= len(self.flushes):
            raise ModelGap("missing-flush", "the model needs flush #%d but the real run performed only %d"
                           % (self.nflush + 1, len(self.flushes)))
        fl = self.flushes[self.nflush]
        self.nflush += 1
        kind = fl["kind"]
        batch = self.batches[kind]
        self.batches[kind] = []
        self.compositions.append((kind, sorted(f.tok for f in batch)))
        self.started_at_flush.append(sorted(tok for tok, i in self.insts.items() if i.started and not i.done))
        for f in batch:
            if not f.done:
                self._resolve_item(f)
        for k2 in fl.get("cancelled", []):
            b2 = self.batches[k2]
            self.batches[k2] = []
            for f in b2:
                if not f.done:
                    self._resolve_item(f)

    def sync(self, inst, node, how):
        fut = prog.build_leaf(self, inst, node)
        if not isinstance(fut, MFut):
            raise TypeError("sync on non-future")
        if fut.kind == "task":
            self.awaiters[fut.inst.token].append((inst.token, tuple(self.own[inst.token])))
        if self.mode == "seq":
            self.force(fut, self.tlevel.get(inst.token, 0))
        else:
            if fut.kind == "task":
                self.wait(fut)
            elif fut.kind == "item":
                raise HarnessError("sync on item in staged mode")
            else:
                self.force(fut)
        if fut.err is not None:
            raise fut.err
        return fut.val

    def run_root(self):
        ext = []
        for j, tmpl in enumerate(self.spec.get("ext_tasks", [])):
            if isinstance(tmpl, int) and 0 < tmpl < len(self.spec["templates"]):
                ext.append(self.call(None, Inst("e%d" % j, tmpl, [])))
        root = Inst("r", self.spec["root"]["tmpl"], ext)
        t = self.call(None, root)
        if self.mode == "seq":
            self.crit = self.force(t)
        else:
            self.wait(t)
        return t

    # ---- scoped environments ---------------------------------------------------------------
    def possible_reads(self, defaults):
        """token -> list (per read point) of sets of possible env tuples."""
        nsv = len(defaults)
        memo = {}

        def apply(env, snap):
            env = list(env)
            for idx, v in snap:
                i = nsv - 1 if idx == "attr" else idx
                env[i] = v
            return tuple(env)

        def base(tok):
            if tok in memo:
                return memo[tok]
            memo[tok] = set()  # cycle guard (cannot happen: DAG)
            aw = self.awaiters.get(tok, [])
            if tok == "r" or not aw:
                res = {tuple(defaults)}
                if aw:
                    for ptok, snap in aw:
                        res |= {apply(b, snap) for b in base(ptok)}
            else:
                res = set()
                for ptok, snap in aw:
                    res |= {apply(b, snap) for b in base(ptok)}
            memo[tok] = res
            return res

        out = {}
        for tok, snaps in self.reads.items():
            b = base(tok)
            out[tok] = [{apply(e, s) for e in b} for s in snaps]
        return out
