"""Driver: build, fan out workers over both builds, merge, write evidence, report.

Exit 0: property held on everything explored (KNOWN-FINDING lines may be printed)
Exit 1: VIOLATION property=<id> replay=<path>
Exit 2: harness / build error (never silent, never 0)
"""
import argparse
import importlib
import json
import os
import subprocess
import sys
import tempfile
import time

from . import build

VERIF = os.path.dirname(os.path.dirname(os.path.abspath(__file__)))
PY = "/venv/bin/python"

# static description of each property's check (no asynq import needed in the driver)
from .catalog import CATALOG  # noqa: E402


def _spawn(prop, bname, bdir, seed, tier, shard, count, deadline, out, extra=(), hashseed="0"):
    env = dict(os.environ)
    env["PYTHONPATH"] = bdir + os.pathsep + VERIF
    env["SIMQ_BUILD_DIR"] = bdir
    env["PYTHONHASHSEED"] = hashseed
    env["PYTHONDONTWRITEBYTECODE"] = "1"
    cmd = [PY, os.path.join(VERIF, "simq_worker.py"), "--prop", prop, "--build", bname, "--seed", str(seed),
           "--tier", tier, "--shard", shard, "--count", str(count), "--deadline", str(deadline), "--out", out]
    cmd += list(extra)
    return subprocess.Popen(cmd, env=env, cwd=VERIF, stdout=subprocess.PIPE, stderr=subprocess.STDOUT, text=True)


def run_workers(prop, builds, seed, tier, jobs, count_per_build, budget_s, extra=(), hashseed="0"):
    """Returns list of worker result dicts (or error dicts)."""
    tmp = tempfile.mkdtemp(prefix="simq-", dir="/var/tmp")
    procs = []
    per_build = max(1, jobs // len(builds))
    deadline = time.time() + budget_s
    for bname, bdir in builds:
        for w in range(per_build):
            out = os.path.join(tmp, "%s-%s-%d.json" % (prop, bname, w))
            cnt = (count_per_build + per_build - 1) // per_build
            p = _spawn(prop, bname, bdir, seed, tier, "%d/%d" % (w, per_build), cnt, deadline, out, extra, hashseed)
            procs.append((p, out, bname, w))
    results = []
    hard = deadline + 120
    for p, out, bname, w in procs:
        try:
            stdout, _ = p.communicate(timeout=max(5, hard - time.time()))
        except subprocess.TimeoutExpired:
            p.kill()
            stdout, _ = p.communicate()
            results.append({"error": "worker %s/%d killed after hard timeout\n%s" % (bname, w, (stdout or "")[-2000:]), "build": bname})
            continue
        if p.returncode != 0 or not os.path.exists(out):
            results.append({"error": "worker %s/%d exited with %s\n%s" % (bname, w, p.returncode, (stdout or "")[-3000:]), "build": bname})
            continue
        try:
            results.append(json.load(open(out)))
        except Exception as e:
            results.append({"error": "worker %s/%d wrote unreadable output: %s" % (bname, w, e), "build": bname})
    for p, out, bname, w in procs:
        try:
            os.unlink(out)
        except OSError:
            pass
    try:
        os.rmdir(tmp)
    except OSError:
        pass
    return results


def main(argv=None):
    ap = argparse.ArgumentParser(prog="check")
    ap.add_argument("prop")
    ap.add_argument("--tier", default=os.environ.get("VERIF_TIER", "quick"))
    ap.add_argument("--replay")
    ap.add_argument("--seed", type=int, default=int(os.environ.get("VERIF_SEED", "20260925")))
    ap.add_argument("--jobs", type=int, default=int(os.environ.get("VERIF_JOBS", "16")))
    ap.add_argument("--budget", type=float, default=float(os.environ.get("VERIF_BUDGET_S", "0")))
    ap.add_argument("--count", type=int, default=0)
    ap.add_argument("--builds", default="pure,cy")
    ap.add_argument("--no-evidence", action="store_true")
    args = ap.parse_args(argv)
    if args.tier not in ("quick", "thorough"):
        args.tier = "quick"
    prop = args.prop.upper()
    if prop == "DETERMINISM":
        from . import selftest
        return selftest.determinism(args)
    if prop not in CATALOG:
        print("unknown property %s" % prop)
        return 2
    cat = CATALOG[prop]
    t0 = time.time()
    b = build.ensure()
    builds = []
    if b["pure"]:
        builds.append(("pure", b["pure"]))
    if b["cy"]:
        builds.append(("cy", b["cy"]))
    else:
        print("[build] WARNING: Cython build of the working tree failed; checking the pure-Python build only:\n%s"
              % (b["cy_error"] or "")[-1500:])
    want = [x for x in args.builds.split(",") if x]
    builds = [x for x in builds if x[0] in want]
    if not builds:
        print("HARNESS-ERROR: no usable build")
        return 2

    if args.replay:
        rp = json.load(open(args.replay))
        bl = [x for x in builds if x[0] == rp.get("build", "pure")] or builds[:1]
        res = run_workers(prop, bl, args.seed, args.tier, 1, 1, 120, extra=["--replay", os.path.abspath(args.replay)],
                          hashseed=rp.get("pythonhashseed") or "0")
        r = res[0]
        if "error" in r:
            print("HARNESS-ERROR: " + r["error"])
            return 2
        rep = r["replay"]
        print(json.dumps(rep, indent=1))
        if rep["reproduced"]:
            print("VIOLATION property=%s replay=%s" % (prop, args.replay))
            return 1
        print("replay did NOT reproduce the violation on the current tree")
        return 0

    if args.tier == "quick":
        count = args.count or cat["quick_cases"]
        budget = args.budget or cat.get("quick_budget_s", 50)
    else:
        count = args.count or 10 ** 9
        budget = args.budget or cat.get("thorough_budget_s", 600)
    results = run_workers(prop, builds, args.seed, args.tier, args.jobs, count, budget)
    wall = time.time() - t0

    errors = [r for r in results if "error" in r] + [e for r in results if "errors" in r for e in r["errors"]]
    good = [r for r in results if "error" not in r]
    violations = sorted((r["violation"] for r in good if r.get("violation")), key=lambda v: (v["case_index"], v["build"]))
    known = {}
    for r in good:
        for k in r.get("known_hits", []):
            known.setdefault(k["key"], k)
    runs = sum(r["runs"] for r in good)
    nontriv = sum(r["nontrivial"] for r in good)
    sigs = set()
    stats = {}
    samples = []
    per_build = {}
    from .worker import merge_stats
    for r in good:
        sigs.update(r.get("sigs", []))
        merge_stats(stats, r.get("stats", {}))
        if len(samples) < 3:
            samples.extend(r.get("samples", [])[:1])
        pb = per_build.setdefault(r["build"], {"runs": 0, "wall_s": 0.0})
        pb["runs"] += r["runs"]
        pb["wall_s"] = round(max(pb["wall_s"], r["wall_s"]), 2)

    for k in known.values():
        print("KNOWN-FINDING: property=%s %s [%s]" % (prop, k["text"], k["key"]))

    replay_path = None
    if violations:
        v = violations[0]
        os.makedirs(os.path.join(VERIF, "replays"), exist_ok=True)
        replay_path = os.path.join(VERIF, "replays", "%s-%s-%d-%d.json" % (prop, v["build"], v["verif_seed"], v["case_index"]))
        json.dump(v, open(replay_path, "w"), indent=1)

    if not args.no_evidence:
        sim_us = stats.get("sim_us", 0)
        ev = {
            "property_id": prop,
            "tier": args.tier,
            "seed": args.seed,
            "level": cat["level"],
            "coverage": {
                "evaluations": runs,
                "distinct_nontrivial": len(sigs),
                "rule": cat["rule"],
                "samples": samples or [{"note": "no non-trivial sample in this run"}],
                "nontrivial_runs": nontriv,
                "runs_per_hour": int(runs / wall * 3600) if wall > 0 else 0,
                "seeds": "case seed = blake2b(VERIF_SEED/property/index); VERIF_SEED=%d, indices 0..%d per build" % (args.seed, max(0, runs // max(1, len(builds)) - 1)),
                "simulated_time_us": sim_us,
                "logical_events": stats.get("events", 0),
                "faults_fired": stats.get("faults", {}),
                "probes": stats.get("probes", {}),
                "other_counters": {k: v for k, v in stats.items() if k not in ("faults", "probes", "events", "sim_us")},
                "builds": per_build,
                "cython_build": "ok" if b["cy"] else "FAILED - pure build only",
                "tree_hash": b["hash"],
                "components": cat.get("components", {
                    "real": "all of asynq (scheduler, tasks, futures, batching, contexts, scoped values, decorators, tools) and qcore",
                    "stub": "the batch service behind _flush, the clock (utime/time/sleep), diagnostic streams",
                }),
                "known_findings_hit": sorted(known),
                "exhaustive": False,
            },
            "assumptions": cat.get("assumptions", []),
            "wall_s": round(wall, 2),
            "violations": len(violations),
        }
        os.makedirs(os.path.join(VERIF, "evidence"), exist_ok=True)
        json.dump(ev, open(os.path.join(VERIF, "evidence", "%s.json" % prop), "w"), indent=1, sort_keys=True)

    print("[%s] tier=%s seed=%d runs=%d (distinct non-trivial %d) builds=%s wall=%.1fs faults=%s" % (
        prop, args.tier, args.seed, runs, len(sigs), ",".join("%s:%d" % (k, v["runs"]) for k, v in sorted(per_build.items())),
        wall, json.dumps(stats.get("faults", {}), sort_keys=True)))
    if errors:
        for e in errors[:3]:
            print("HARNESS-ERROR: %s" % (e.get("error") if isinstance(e, dict) else e))
        if violations:
            pass
        else:
            return 2
    if violations:
        v = violations[0]
        print("violation: check=%s build=%s case_index=%d: %s" % (v["check"], v["build"], v["case_index"], v["message"]))
        print("(%d of %d workers found a violation)" % (len(violations), len(good)))
        print("VIOLATION property=%s replay=%s" % (prop, replay_path))
        return 1
    if runs == 0:
        print("HARNESS-ERROR: no runs executed")
        return 2
    return 0


if __name__ == "__main__":
    sys.exit(main())
