"""./check determinism [--props C01,C05] [--count N]: the same VERIF_SEED must give the same per-case
digests (canonical event traces) twice, under another PYTHONHASHSEED in fresh interpreters, and
with another worker count; both builds."""
import json
import os
import time

from . import build
from .catalog import CATALOG


def determinism(args):
    from .driver import run_workers, VERIF
    props = os.environ.get("SIMQ_PROPS", "").split(",") if os.environ.get("SIMQ_PROPS") else sorted(CATALOG)
    count = args.count or 160
    b = build.ensure()
    builds = [(n, b[n]) for n in ("pure", "cy") if b.get(n)]
    bad = 0
    total = 0
    t0 = time.time()
    report = {}
    for prop in props:
        configs = [("jobs16-hash0-a", 16, "0"), ("jobs16-hash0-b", 16, "0"), ("jobs3-hash12345", 3, "12345"), ("jobs7-hash99", 7, "99")]
        digs = []
        for name, jobs, hs in configs:
            res = run_workers(prop, builds, args.seed, "quick", jobs, count, 600, extra=["--digests"], hashseed=hs)
            d = {}
            for r in res:
                if "error" in r:
                    print("HARNESS-ERROR: %s" % r["error"][-500:])
                    return 2
                for k, v in r.get("digests", {}).items():
                    d[(r["build"], int(k))] = v
            digs.append(d)
        common = set(digs[0])
        for d in digs[1:]:
            common &= set(d)
        diff = [k for k in sorted(common) if len({d[k] for d in digs}) != 1]
        total += len(common)
        report[prop] = {"cases_compared": len(common), "configs": [c[0] for c in configs], "divergent": len(diff)}
        print("[determinism] %s: %d cases x %d configurations (2 builds), divergent: %d%s" % (
            prop, len(common), len(configs), len(diff), (" e.g. %r" % (diff[:3],)) if diff else ""))
        bad += len(diff)
    os.makedirs(os.path.join(VERIF, "evidence"), exist_ok=True)
    json.dump({"seed": args.seed, "wall_s": round(time.time() - t0, 1), "cases_compared": total, "divergent": bad, "per_property": report},
              open(os.path.join(VERIF, "evidence", "determinism.json"), "w"), indent=1, sort_keys=True)
    if bad:
        print("NONDETERMINISM: %d of %d case digests differ between configurations" % (bad, total))
        return 1
    print("[determinism] ok: %d case digests identical across repeats, hash seeds and worker counts" % total)
    return 0
