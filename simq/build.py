"""Build cache: pure-Python and Cython-compiled copies of /repo's *current working tree*.

Nothing is kept in /repo, /verif or /tmp; the cache (default /var/tmp/asynq-verif) is only an
accelerator keyed by a hash of the sources, rebuilt whenever the working tree changes.
"""
import fcntl
import hashlib
import os
import shutil
import subprocess
import sys
import time

REPO = os.environ.get("ASYNQ_VERIF_REPO", "/repo")
CACHE = os.environ.get("ASYNQ_VERIF_CACHE", "/var/tmp/asynq-verif")
PY = "/venv/bin/python"
SRC_EXT = (".py", ".pxd", ".pyi")


def _source_files():
    out = []
    base = os.path.join(REPO, "asynq")
    for name in sorted(os.listdir(base)):
        p = os.path.join(base, name)
        if os.path.isfile(p) and (name.endswith(SRC_EXT) or name == "py.typed"):
            out.append(("asynq/" + name, p))
    out.append(("setup.py", os.path.join(REPO, "setup.py")))
    out.append(("README.rst", os.path.join(REPO, "README.rst")))
    return out


def tree_hash():
    h = hashlib.blake2b(digest_size=10)
    for rel, p in _source_files():
        h.update(rel.encode())
        h.update(b"\0")
        with open(p, "rb") as f:
            h.update(f.read())
        h.update(b"\0")
    h.update(sys.version.encode())
    return h.hexdigest()


def _copy_sources(dst):
    os.makedirs(os.path.join(dst, "asynq"), exist_ok=True)
    for rel, p in _source_files():
        shutil.copyfile(p, os.path.join(dst, rel))


def ensure(want=("pure", "cy"), verbose=True):
    """Returns {"hash":..., "pure": dir or None, "cy": dir or None, "cy_error": str or None}."""
    os.makedirs(CACHE, exist_ok=True)
    th = tree_hash()
    root = os.path.join(CACHE, th)
    res = {"hash": th, "pure": None, "cy": None, "cy_error": None, "build_s": 0.0}
    lock = open(os.path.join(CACHE, ".lock"), "w")
    fcntl.flock(lock, fcntl.LOCK_EX)
    try:
        t0 = time.time()
        # prune other hashes (keep disk small); only directories that look like ours
        for name in os.listdir(CACHE):
            p = os.path.join(CACHE, name)
            if name != th and os.path.isdir(p) and len(name) == 20:
                # keep very recent ones: another check may be using them (mutant sweeps)
                try:
                    if time.time() - os.path.getmtime(p) > 6 * 3600:
                        shutil.rmtree(p, ignore_errors=True)
                except OSError:
                    pass
        if "pure" in want:
            d = os.path.join(root, "pure")
            if not os.path.exists(os.path.join(d, ".ok")):
                shutil.rmtree(d, ignore_errors=True)
                _copy_sources(d)
                open(os.path.join(d, ".ok"), "w").close()
            res["pure"] = d
        if "cy" in want:
            d = os.path.join(root, "cy")
            if os.path.exists(os.path.join(d, ".failed")):
                res["cy_error"] = open(os.path.join(d, ".failed")).read()
            elif not os.path.exists(os.path.join(d, ".ok")):
                shutil.rmtree(d, ignore_errors=True)
                _copy_sources(d)
                if verbose:
                    print("[build] compiling Cython build of working tree %s ..." % th, flush=True)
                env = dict(os.environ)
                env.pop("PYTHONPATH", None)
                p = subprocess.run(
                    [PY, "setup.py", "build_ext", "--inplace", "-j", "16"],
                    cwd=d, env=env, stdout=subprocess.PIPE, stderr=subprocess.STDOUT, text=True,
                )
                shutil.rmtree(os.path.join(d, "build"), ignore_errors=True)
                for name in os.listdir(os.path.join(d, "asynq")):
                    if name.endswith((".c", ".h")):
                        os.unlink(os.path.join(d, "asynq", name))
                so = [n for n in os.listdir(os.path.join(d, "asynq")) if n.endswith(".so")]
                if p.returncode != 0 or len(so) < 11:
                    lines = p.stdout.splitlines()
                    idx = [i for i, l in enumerate(lines) if "Error compiling" in l or ("error:" in l.lower() and ".py" in l)]
                    ctx = "\n".join(lines[max(0, idx[0] - 2):idx[0] + 25]) if idx else p.stdout[-3000:]
                    msg = "cython build failed (rc=%s, %d .so)\n%s" % (p.returncode, len(so), ctx)
                    open(os.path.join(d, ".failed"), "w").write(msg)
                    res["cy_error"] = msg
                else:
                    open(os.path.join(d, ".ok"), "w").close()
            if res["cy_error"] is None:
                res["cy"] = d
        os.utime(root, None)
        res["build_s"] = round(time.time() - t0, 2)
    finally:
        fcntl.flock(lock, fcntl.LOCK_UN)
        lock.close()
    return res


if __name__ == "__main__":
    import json
    print(json.dumps(ensure(), indent=1))
