"""Seeded generator of program specs (swarm style: features and sizes vary per run)."""
import json
import zlib

BASE = {
    "max_templates": 8, "max_steps": 4, "fanout": 3, "max_kinds": 3, "nest": 2,
    "p_container": 0.35, "p_sync": 0.0, "p_ctx": 0.0, "p_na": 0.0, "p_sv": 0.0, "p_try": 0.0,
    "p_fault": 0.0, "p_create": 0.2, "p_ref": 0.15, "p_result": 0.15, "p_dict": 0.3,
    "kinds_of_tmpl": ["fn", "fn", "fn", "pure", "method", "classmethod", "staticmethod", "proxy", "plain"],
    "item_faults": 0.0, "flush_faults": 0.0, "base_exc": 0.0, "tree_only": False, "yield_only": True,
    "p_lazy": 0.08, "p_item": 0.4, "p_call": 0.45, "keys": 6, "ctx_faults": 0.0, "p_timer": 0.0,
    "p_item_value_sync": 0.0, "flush_reenter": 0.0,
}


def swarm(rng, base, **over):
    """Per-run configuration: each optional feature is switched on for a random subset of runs."""
    cfg = dict(BASE)
    cfg.update(base)
    cfg.update(over)
    for k in ("p_sync", "p_ctx", "p_na", "p_sv", "p_try", "p_fault", "p_create", "p_ref", "p_dict",
              "p_lazy", "item_faults", "flush_faults", "ctx_faults", "p_timer", "p_item_value_sync"):
        if cfg[k] > 0 and rng.random() < 0.3:
            cfg[k] = 0.0  # feature off in this run
    big = rng.random() < 0.1
    cfg["n_templates"] = rng.randint(1, cfg["max_templates"] * (2 if big else 1))
    cfg["n_steps"] = rng.randint(1, cfg["max_steps"] + (2 if big else 0))
    cfg["kinds"] = rng.randint(1, cfg["max_kinds"])
    if cfg["tree_only"]:
        cfg["p_create"] = cfg["p_ref"] = cfg["p_sync"] = 0.0
    return cfg


def program_size(spec):
    """Upper bound on the number of task instances a run of spec creates (static count)."""
    T = len(spec["templates"])
    memo = {}

    def calls_in(node, acc):
        if isinstance(node, list):
            if node and node[0] == "call" and len(node) > 1 and isinstance(node[1], int):
                acc.append(node[1])
            for c in node:
                calls_in(c, acc)

    def size(i):
        if i in memo:
            return memo[i]
        acc = []
        calls_in(spec["templates"][i]["steps"], acc)
        n = 1
        for j in acc:
            if i < j < T:
                n += size(j)
                if n > 10 ** 6:
                    break
        memo[i] = n
        return n
    return size(spec["root"]["tmpl"]) if T else 0


def gen_program(rng, cfg):
    cap = cfg.get("max_instances", 250)
    for attempt in range(6):
        spec = _gen_program(rng, cfg)
        if program_size(spec) <= cap:
            break
        cfg = dict(cfg)
        cfg["n_templates"] = max(1, cfg["n_templates"] * 2 // 3)
        cfg["fanout"] = max(1, cfg["fanout"] - 1)
    # one program in six: every exception instance the user code raises is falsy (an exception
    # class with __bool__/__len__). Decided by a digest of the program, not by the generator's
    # random stream (explicit, shrinkable key in the spec).
    d = zlib.crc32(json.dumps(spec, sort_keys=True).encode())
    if d % 6 == 0:
        spec["falsy_errors"] = True
    if (d // 6) % 3 == 0:
        spec["falsy_holder"] = True
    if (d // 72) % 3 == 0:
        spec["sv_subclass"] = True
    if (d // 216) % 4 == 0:
        spec["pause_returns"] = True
    if (d // 18) % 4 == 0:
        # results that cannot be compared (== raises, like an array's): "const" results become such
        def walk(steps):
            for st in steps:
                if st[0] in ("ret", "res") and st[1] == "const":
                    st[1] = "oddeq"
                elif st[0] == "try":
                    walk(st[1])
                    walk(st[3])
                elif st[0] in ("with", "blk"):
                    walk(st[-1])
        for t in spec["templates"]:
            walk(t["steps"])
    return spec


def _gen_program(rng, cfg):
    T = cfg["n_templates"]
    templates = []
    for i in range(T):
        kind = rng.choice(cfg["kinds_of_tmpl"])
        steps = _gen_block(rng, cfg, i, T, 0, kind == "plain", top=True)
        if kind == "plain" and _has_yield(steps):
            kind = "fn"
        templates.append({"kind": kind, "steps": steps})
    spec = {
        "templates": templates,
        "root": {"tmpl": 0, "conv": rng.choice(["call", "value", "wrapped"])},
        "kinds": cfg["kinds"],
        "svs": 2,
        "yield_only": not _has_sync(templates),
        "reentry": _has_sync(templates),
        "faults": _gen_faults(rng, cfg),
        "prio": gen_prio(rng, cfg["kinds"]),
    }
    if cfg["tree_only"]:
        spec["tree_only"] = True
    if rng.random() < cfg.get("p_item_eq", 0.0):
        spec["item_eq"] = True
    if rng.random() < cfg.get("p_ext_tasks", 0.0) and T > 1:
        spec["ext_tasks"] = [rng.randint(1, T - 1) for _ in range(rng.randint(1, 2))]
    if rng.random() < cfg.get("p_cb_ctx", 0.0):
        spec["cb_ctx"] = True
    if rng.random() < cfg.get("p_debug_kinds", 0.25):
        dk = [k for k in range(cfg["kinds"]) if rng.random() < 0.5]
        if dk:
            spec["debug_kinds"] = dk
            spec["faults"]["items"] = {k: v for k, v in spec["faults"]["items"].items() if int(k.split(":")[0]) not in dk}
            spec["faults"]["flushes"] = {k: v for k, v in spec["faults"]["flushes"].items() if int(k.split("#")[0]) not in dk}
    if any(p.get("reenter") for p in spec["faults"]["flushes"].values()):
        spec["yield_only"] = False
        spec["reentry"] = True
    return spec


def gen_prio(rng, kinds):
    pol = rng.choice(["default", "default", "const", "perbatch", "neglen", "intconst", "intneg"])
    pr = {"policy": pol, "hashes": {"order": [rng.randint(0, 7) for _ in range(5)]}}
    if pol in ("const", "intconst"):
        pr["vals"] = {str(k): rng.randint(0, 2) for k in range(kinds)}
    elif pol == "intneg":
        # plain ints, the greatest being exactly 0 (a falsy value) and the others negative
        vals = [0] + [-rng.randint(1, 3) for _ in range(kinds - 1)]
        rng.shuffle(vals)
        pr["vals"] = {str(k): vals[k] for k in range(kinds)}
        pr["policy"] = "intconst"
    elif pol == "perbatch":
        pr["vals"] = {"seq": [rng.randint(0, 3) for _ in range(7)]}
    return pr


def _gen_faults(rng, cfg):
    f = {"items": {}, "flushes": {}, "ctx": {}}
    if cfg["item_faults"] > 0:
        for k in range(cfg["kinds"]):
            for key in range(cfg["keys"]):
                if rng.random() < cfg["item_faults"]:
                    f["items"]["%d:%s" % (k, key)] = rng.choice(["err", "unset"])
    if cfg["flush_faults"] > 0:
        for k in range(cfg["kinds"]):
            for o in range(1, 5):
                if rng.random() < cfg["flush_faults"]:
                    plan = {}
                    r = rng.random()
                    if r < 0.15:
                        plan["cancel_self_at"] = rng.randint(0, 2)
                    elif r < 0.6:
                        plan["raise_at"] = rng.randint(0, 3)
                        if rng.random() < cfg["base_exc"]:
                            plan["base"] = True
                    if rng.random() < 0.4:
                        plan["new_items"] = rng.randint(1, 3)
                    if rng.random() < cfg.get("flush_reenter", 0.0):
                        plan["reenter"] = rng.randint(1, 3)
                        if rng.random() < 0.5:
                            plan["reenter_first"] = True
                    if rng.random() < cfg.get("flush_cancels", 0.0):
                        plan["cancel_kind"] = rng.randint(0, 3)
                    if plan:
                        f["flushes"]["%d#%d" % (k, o)] = plan
    return f


def motif_shared_override(rng):
    """A pending overriding task awaited by several tasks that each override the same scoped
    value, each with a private child that reads across several flushes (parametrised)."""
    n = rng.randint(2, 4)
    k = rng.randint(1, 3)
    kinds = rng.randint(1, 2)
    sv = rng.randint(0, 1)

    use_attr = rng.random() < 0.3

    def ov(v):
        return ["attr", v] if use_attr else ["sv", sv, v]

    def items(m):
        return [["y", ["item", rng.randint(0, kinds - 1), rng.randint(0, 5)]] for _ in range(m)]

    cont = rng.choice(["t", "l"])
    idx_s = n + 1
    idx_side = n + 2
    root = [["c", ["call", idx_s, []]]]
    consumers = [["call", i + 1, [0]] for i in range(n)]
    root.append(["y", [cont, consumers]])
    templates = [{"kind": "fn", "steps": root}]
    for i in range(n):
        pair = [["ref", 0], ["call", idx_side, []]]
        if rng.random() < 0.5:
            pair.reverse()
        body = [["y", [rng.choice(["t", "l"]), pair]]] + items(rng.randint(0, 1))
        # some consumers reach the shared task only after a request of their own, so that the
        # shared task is started under one consumer and continued under another
        pre = items(rng.randint(0, 1)) if rng.random() < 0.5 else []
        templates.append({"kind": rng.choice(["fn", "method", "pure"]), "steps": pre + [["with", ov(10 + i), body]]})
    shared_val = 99 if rng.random() < 0.5 else 10 + rng.randint(0, n - 1)
    templates.append({"kind": "fn", "steps": [["with", ov(shared_val), items(k + 1)]]})
    templates.append({"kind": "fn", "steps": items(k + 1)})
    return {"templates": templates, "root": {"tmpl": 0, "conv": rng.choice(["call", "value", "wrapped"])},
            "kinds": kinds, "svs": 2, "yield_only": True, "reentry": False,
            "faults": {"items": {}, "flushes": {}, "ctx": {}}, "prio": gen_prio(rng, kinds)}


def motif_abandoned(rng):
    """A task that holds overrides/contexts is left suspended for good: the task awaiting it fails
    inside a NonAsyncContext (or the awaiting chain fails) while it is blocked on a request; the
    computation goes on and ends, and the abandoned generator is finalised afterwards."""
    kinds = rng.randint(1, 2)
    sv = rng.randint(0, 1)

    def ov(v):
        r = rng.random()
        return ["sv", sv, v] if r < 0.5 else ["attr", v] if r < 0.8 else ["ctx"]

    def items(m):
        return [["y", ["item", rng.randint(0, kinds - 1), rng.randint(0, 5)]] for _ in range(m)]
    nchild = rng.randint(1, 3)
    # templates: 0 root, 1 middle (NonAsync), 2.. children
    children = []
    for i in range(nchild):
        body = items(rng.randint(1, 2))
        for _ in range(rng.randint(1, 2)):
            body = [["with", ov(20 + i), body]]
        children.append({"kind": "fn", "steps": body})
    kids = [["call", 2 + i, []] for i in range(nchild)]
    mid_body = [["y", kids[0] if nchild == 1 and rng.random() < 0.5 else [rng.choice(["t", "l"]), kids]]]
    mid = [["with", ["na"], mid_body]]
    if rng.random() < 0.5:
        mid = [["with", ov(10), mid]]
    root = [["try", [["y", ["call", 1, []]]], "all", items(rng.randint(0, 1))]] + items(rng.randint(0, 2))
    if rng.random() < 0.5:
        root = [["with", ov(5), root]]
    templates = [{"kind": "fn", "steps": root}, {"kind": "fn", "steps": mid}] + children
    return {"templates": templates, "root": {"tmpl": 0, "conv": rng.choice(["call", "value", "wrapped"])},
            "kinds": kinds, "svs": 2, "yield_only": True, "reentry": False,
            "faults": {"items": {}, "flushes": {}, "ctx": {}}, "prio": gen_prio(rng, kinds)}


def motif_cancel_scheduled(rng):
    """A flush body cancels another kind's batch that is scheduled (tasks are blocked on it); the
    cancelled batch keeps its items and, in a later selection round, outranks what is still
    pending. The scheduler must drop it, not flush it, and resume the tasks blocked on it."""
    nb = rng.randint(1, 3)
    calls = [["call", 1, []]] + [["call", 2, []] for _ in range(nb)] + [["call", 3, []]]
    rng.shuffle(calls)
    root = [["y", [rng.choice(["t", "l"]), calls]]]
    if rng.random() < 0.5:
        root = [["try", root, "all", [["y", ["item", 2, rng.randint(0, 5)]]]]]
    a = [["y", ["item", 0, rng.randint(0, 5)]]]
    b = [["y", ["item", 1, rng.randint(0, 5)]]]
    if rng.random() < 0.4:
        b = [["try", b, "all", [["y", ["item", 2, rng.randint(0, 5)]]]]]
    c = [["y", ["item", 2, rng.randint(0, 5)]] for _ in range(rng.randint(1, 2))]
    templates = [{"kind": "fn", "steps": root}, {"kind": "fn", "steps": a}, {"kind": "fn", "steps": b}, {"kind": "fn", "steps": c}]
    pol = rng.choice(["const", "intconst"])
    return {"templates": templates, "root": {"tmpl": 0, "conv": rng.choice(["call", "value", "wrapped"])},
            "kinds": 3, "svs": 1, "yield_only": True, "reentry": False,
            "faults": {"items": {}, "flushes": {"0#1": {"cancel_kind": 1}}, "ctx": {}},
            "prio": {"policy": pol, "vals": {"0": 2, "1": 1, "2": 0}, "hashes": {"order": [rng.randint(0, 7) for _ in range(5)]}}}


def motif_out_of_band_flush(rng):
    """Tasks are blocked on a batch (it is scheduled); a sibling written after them reads one of
    its requests synchronously with item.value(), which flushes the batch out of band, and goes on
    to need - or not - a further scheduler flush. With KEEP_DEPENDENCIES the flushed batch keeps
    its items while it is still registered with the scheduler."""
    na = rng.randint(1, 3)
    kinds = 2
    a = [["y", ["item", 0, rng.randint(0, 5)]]] + [["y", ["item", rng.randint(0, 1), rng.randint(0, 5)]] for _ in range(rng.randint(0, 1))]
    tail = rng.choice(["none", "other", "same"])
    b = [["s", ["item", 0, rng.randint(0, 5)], "value"]]
    if tail == "other":
        b.append(["y", ["item", 1, rng.randint(0, 5)]])
    elif tail == "same":
        b.append(["y", ["item", 0, rng.randint(0, 5)]])
    calls = [["call", 1, []] for _ in range(na)] + [["call", 2, []]]
    if rng.random() < 0.3:
        calls.append(["call", 1, []])
    templates = [{"kind": "fn", "steps": [["y", [rng.choice(["t", "l"]), calls]]]}, {"kind": "fn", "steps": a}, {"kind": "fn", "steps": b}]
    spec = {"templates": templates, "root": {"tmpl": 0, "conv": rng.choice(["call", "value", "wrapped"])},
            "kinds": kinds, "svs": 1, "yield_only": False, "reentry": True,
            "faults": {"items": {}, "flushes": {}, "ctx": {}}, "prio": gen_prio(rng, kinds)}
    if rng.random() < 0.5:
        spec["options"] = {"KEEP_DEPENDENCIES": True}
    return spec


def motif_cache_hit(rng):
    """A task yields, together, a request that is answered when it is made (a local cache hit; its
    batch stays pending) and tasks that finish without a request; it then issues a real request.
    Another task is blocked meanwhile. Everything that can be issued must travel in one flush."""
    hit = rng.choice([0, 3])
    first = [["item", 0, hit], ["call", 3, []]]
    if rng.random() < 0.5:
        first.append(["call", 3, []])
    rng.shuffle(first)
    a = [["y", [rng.choice(["t", "l"]), first]], ["y", ["item", 0, rng.choice([1, 2, 4])]]]
    b = [["y", ["item", 0, rng.choice([1, 2, 5])]]]
    calls = [["call", 1, []], ["call", 2, []]]
    rng.shuffle(calls)
    templates = [{"kind": "fn", "steps": [["y", [rng.choice(["t", "l"]), calls]]]}, {"kind": "fn", "steps": a},
                 {"kind": "fn", "steps": b}, {"kind": "fn", "steps": []}]
    return {"templates": templates, "root": {"tmpl": 0, "conv": rng.choice(["call", "value", "wrapped"])},
            "kinds": 1, "svs": 1, "yield_only": True, "reentry": False, "cache_hits": True,
            "faults": {"items": {}, "flushes": {}, "ctx": {}}, "prio": gen_prio(rng, 1)}


def motif_wide(rng, kind):
    """One yield of more than a thousand tasks that each wait for a request of the same batch
    kind (a batch of 1000+ items), inside a context / NonAsyncContext / plain."""
    n = rng.choice([1030, 1100, 1300])
    inner = [["y", ["item", 0, rng.randint(0, 5)]]]
    if kind == "ctx":
        child = [["with", ["ctx"], inner]]
    elif kind == "na":
        child = [["with", ["na"], inner]]
    else:
        child = inner
    templates = [{"kind": "fn", "steps": [["y", ["l", [["call", 1, []] for _ in range(n)]]]]},
                 {"kind": "fn", "steps": child}]
    return {"templates": templates, "root": {"tmpl": 0, "conv": rng.choice(["call", "value"])},
            "kinds": 1, "svs": 1, "yield_only": True, "reentry": False, "tree_only": kind == "plain",
            "faults": {"items": {}, "flushes": {}, "ctx": {}}, "prio": gen_prio(rng, 1)}


def motif_unnested_ctx(rng, ctxs=None):
    """Two contexts of one task left in the order they were entered (enter A, enter B, leave A,
    suspensions, leave B), next to sibling tasks."""
    kinds = rng.randint(1, 2)

    def items(m):
        return [["y", ["item", rng.randint(0, kinds - 1), rng.randint(0, 5)]] for _ in range(m)]
    # (two save-and-restore contexts that are not nested must not share their target)
    ca, cb = (ctxs[0], ctxs[1]) if ctxs else (["ctx"], ["ctx"])
    if ctxs and rng.random() < 0.5:
        ca, cb = cb, ca
    victim = [["with2", ca, cb, items(rng.randint(0, 1)), items(rng.randint(1, 2))]] + items(rng.randint(0, 1))
    if rng.random() < 0.3:
        victim = [["with", ["ctx"], victim]]
    sib = items(rng.randint(1, 3))
    if rng.random() < 0.4:
        sib = [["with", ["ctx"], sib]]
    calls = [["call", 1, []], ["call", 2, []]]
    rng.shuffle(calls)
    templates = [{"kind": "fn", "steps": [["y", [rng.choice(["t", "l"]), calls]]]},
                 {"kind": "fn", "steps": victim}, {"kind": "fn", "steps": sib}]
    return {"templates": templates, "root": {"tmpl": 0, "conv": rng.choice(["call", "value", "wrapped"])},
            "kinds": kinds, "svs": 1, "yield_only": True, "reentry": False, "ctx_fault": True,
            "faults": {"items": {}, "flushes": {}, "ctx": {}}, "prio": gen_prio(rng, kinds)}


def motif_base_hook_fault(rng):
    """A task holds an override and, inside it, a context whose pause() or resume() raises a
    BaseException (not an Exception) at a task switch; the override entered outside that context
    must be undone all the same."""
    kinds = rng.randint(1, 2)

    def items(m):
        return [["y", ["item", rng.randint(0, kinds - 1), rng.randint(0, 5)]] for _ in range(m)]
    ov = rng.choice([["sv", 0, 7], ["sv", 1, 8], ["attr", 9]])
    inner = [["with", ["ctx"], items(rng.randint(2, 3))]]
    nth = 2  # the plain context is the second context the victim makes ...
    if rng.random() < 0.4:
        inner = [["with", rng.choice([["sv", 1, 5], ["attr", 6]]), inner]]
        nth = 3  # ... or the third
    victim = [["with", ov, inner + items(rng.randint(0, 1))]]
    if rng.random() < 0.5:
        victim = [["try", victim, "base", items(rng.randint(0, 1))]]
    sib = items(rng.randint(1, 3))
    calls = [["call", 1, []], ["call", 2, []]]
    rng.shuffle(calls)
    templates = [{"kind": "fn", "steps": [["y", [rng.choice(["t", "l"]), calls]]]},
                 {"kind": "fn", "steps": victim}, {"kind": "fn", "steps": sib}]
    return {"templates": templates, "root": {"tmpl": 0, "conv": rng.choice(["call", "value", "wrapped"])},
            "kinds": kinds, "svs": 2, "yield_only": True, "reentry": False, "ctx_fault": True,
            "faults": {"items": {}, "flushes": {}, "ctx": {"r.%d.c%d" % (k_, nth - 1): [rng.choice(["pause", "resume"]), 2, "base"] for k_ in (0, 1)}},
            "prio": gen_prio(rng, kinds)}


def motif_aio_inside_task(rng):
    """A task calls asyncio.run(fn.asyncio()) from its synchronous code (fn uses a context), then
    goes on through contexts and suspensions of its own, next to a sibling task."""
    kinds = rng.randint(1, 2)

    def items(m):
        return [["y", ["item", rng.randint(0, kinds - 1), rng.randint(0, 5)]] for _ in range(m)]
    victim = items(rng.randint(0, 1)) + [["aio"]] + items(rng.randint(1, 2))
    if rng.random() < 0.5:
        victim = victim[:-1] + [["with", ["ctx"], victim[-1:]]] + items(rng.randint(0, 1))
    sib = items(rng.randint(1, 3))
    if rng.random() < 0.4:
        sib = [["with", ["ctx"], sib]]
    calls = [["call", 1, []], ["call", 2, []]]
    rng.shuffle(calls)
    templates = [{"kind": "fn", "steps": [["y", [rng.choice(["t", "l"]), calls]]]},
                 {"kind": "fn", "steps": victim}, {"kind": "fn", "steps": sib}]
    return {"templates": templates, "root": {"tmpl": 0, "conv": rng.choice(["call", "value", "wrapped"])},
            "kinds": kinds, "svs": 1, "yield_only": True, "reentry": False, "ctx_fault": True,
            "faults": {"items": {}, "flushes": {}, "ctx": {}}, "prio": gen_prio(rng, kinds)}


def motif_sync_then_ctx(rng, ctxs=None):
    """A task makes a synchronous call that needs a flush, then - in the same step - enters a
    context and is suspended inside it while sibling tasks run and batches are flushed."""
    kinds = rng.randint(1, 2)

    def items(m):
        return [["y", ["item", rng.randint(0, kinds - 1), rng.randint(0, 5)]] for _ in range(m)]
    victim = items(rng.randint(0, 1)) + [["s", ["call", 3, []], "call"],
                                         ["with", rng.choice(ctxs or [["ctx"], ["ctx"], ["sv", 0, 7]]), items(rng.randint(1, 2))]]
    sib = items(rng.randint(1, 3))
    calls = [["call", 1, []], ["call", 2, []]]
    rng.shuffle(calls)
    templates = [{"kind": "fn", "steps": [["y", [rng.choice(["t", "l"]), calls]]]},
                 {"kind": "fn", "steps": victim}, {"kind": "fn", "steps": sib}, {"kind": "fn", "steps": items(rng.randint(1, 2))}]
    return {"templates": templates, "root": {"tmpl": 0, "conv": rng.choice(["call", "value", "wrapped"])},
            "kinds": kinds, "svs": 1, "yield_only": False, "reentry": True,
            "faults": {"items": {}, "flushes": {}, "ctx": {}}, "prio": gen_prio(rng, kinds)}


def motif_exit_fault(rng):
    """The pause() a context receives when its with-block is left raises; the task handles that
    and goes on through further suspensions (the context must be gone for good), next to
    sibling tasks and optionally inside / around other contexts."""
    kinds = rng.randint(1, 2)

    def items(m):
        return [["y", ["item", rng.randint(0, kinds - 1), rng.randint(0, 5)]] for _ in range(m)]
    m = rng.randint(0, 2)
    nouter = rng.randint(0, 1)       # contexts of the victim around the try
    ninner = rng.randint(0, 1)       # contexts inside the faulted one
    body = items(m)
    for _ in range(ninner):
        body = [["with", ["ctx"], body]] + items(rng.randint(0, 1))
        # (yields after the inner block still happen inside the faulted context)
    npause = sum(1 for st in flat_steps(body) if st[0] == "y")
    victim = [["try", [["with", ["ctx"], body]], rng.choice(["all", "sim"]), items(rng.randint(0, 1))]] + items(rng.randint(1, 3))
    for _ in range(nouter):
        victim = [["with", ["ctx"], victim]]
    root_ctx = rng.random() < 0.4
    sib = items(rng.randint(1, 3))
    if rng.random() < 0.4:
        sib = [["with", ["ctx"], sib]]
    order = rng.random() < 0.5
    calls = [["call", 1, []], ["call", 2, []]] if order else [["call", 2, []], ["call", 1, []]]
    root = [["y", [rng.choice(["t", "l"]), calls]]] + items(rng.randint(0, 1))
    if root_ctx:
        root = [["with", ["ctx"], root]]
    templates = [{"kind": "fn", "steps": root}, {"kind": "fn", "steps": victim}, {"kind": "fn", "steps": sib}]
    # creation order of contexts: root's, then (in start order) the sibling's or the victim's
    idx = (1 if root_ctx else 0) + nouter + 1
    if not order and sib and sib[0][0] == "with":
        idx += 1
    return {"templates": templates, "root": {"tmpl": 0, "conv": rng.choice(["call", "value", "wrapped"])},
            "kinds": kinds, "svs": 1, "yield_only": True, "reentry": False, "ctx_fault": True,
            "faults": {"items": {}, "flushes": {}, "ctx": {"#%d" % idx: ["pause", npause + 1]}}, "prio": gen_prio(rng, kinds)}


def flat_steps(steps):
    for st in steps:
        yield st
        if st[0] == "with":
            for x in flat_steps(st[2]):
                yield x
        elif st[0] == "try":
            for x in flat_steps(st[1]):
                yield x
            for x in flat_steps(st[3]):
                yield x


def motif_dup_ref(rng):
    """One yield that names the same not yet started task twice, with other fresh tasks around
    and between the occurrences, in nested lists/tuples (start order, C03)."""
    kinds = rng.randint(1, 2)
    nleaf = rng.randint(2, 4)

    def leafsteps():
        return [["y", ["item", rng.randint(0, kinds - 1), rng.randint(0, 5)]] for _ in range(rng.randint(0, 2))]
    templates = [None] + [{"kind": "fn", "steps": leafsteps()} for _ in range(nleaf)]
    root = []
    ncreate = rng.randint(1, 2)
    for j in range(ncreate):
        root.append(["c", ["call", rng.randint(1, nleaf), []]])
    elems = []
    for _ in range(rng.randint(2, 5)):
        r = rng.random()
        if r < 0.5:
            elems.append(["ref", rng.randint(0, ncreate - 1)])
        else:
            elems.append(["call", rng.randint(1, nleaf), []])
    # wrap some neighbours into nested containers
    if len(elems) >= 3 and rng.random() < 0.6:
        k = rng.randint(1, len(elems) - 1)
        elems = [[rng.choice(["t", "l"]), elems[:k]], [rng.choice(["t", "l"]), elems[k:]]]
    root.append(["y", [rng.choice(["t", "l"]), elems]])
    templates[0] = {"kind": "fn", "steps": root}
    return {"templates": templates, "root": {"tmpl": 0, "conv": rng.choice(["call", "value", "wrapped"])},
            "kinds": kinds, "svs": 2, "yield_only": True, "reentry": False,
            "faults": {"items": {}, "flushes": {}, "ctx": {}}, "prio": gen_prio(rng, kinds)}


def _has_yield(steps):
    for st in steps:
        if st[0] == "y":
            return True
        if st[0] == "try" and (_has_yield(st[1]) or _has_yield(st[3])):
            return True
        if st[0] == "with" and _has_yield(st[2]):
            return True
    return False


def _has_sync(templates):
    def blk(steps):
        for st in steps:
            if st[0] == "s":
                return True
            if st[0] == "try" and (blk(st[1]) or blk(st[3])):
                return True
            if st[0] == "with" and blk(st[2]):
                return True
        return False

    return any(blk(t["steps"]) for t in templates)


def _gen_block(rng, cfg, i, T, nest, plain, top=False):
    n = rng.randint(1, cfg["n_steps"]) if top else rng.randint(1, max(1, cfg["n_steps"] - 1))
    steps = []
    for _ in range(n):
        r = rng.random()
        if nest < cfg["nest"] and r < cfg["p_try"]:
            body = _gen_block(rng, cfg, i, T, nest + 1, plain)
            handler = _gen_block(rng, cfg, i, T, nest + 1, plain) if rng.random() < 0.6 else []
            steps.append(["try", body, rng.choice(["all", "all", "sim", "base"] if cfg.get("base_exc", 0) > 0 else ["all", "all", "sim"]), handler])
            continue
        r -= cfg["p_try"]
        pc = cfg["p_ctx"] + cfg["p_sv"] + cfg["p_na"] + cfg["p_timer"]
        if nest < cfg["nest"] and r < pc:
            x = rng.random() * pc
            if x < cfg["p_ctx"]:
                c = ["ctx"]
            elif x < cfg["p_ctx"] + cfg["p_sv"]:
                c = ["sv", rng.randint(0, 1), rng.randint(1, 9)] if rng.random() < 0.75 else ["attr", rng.randint(1, 9)]
            elif x < cfg["p_ctx"] + cfg["p_sv"] + cfg["p_na"]:
                c = ["na"]
            else:
                c = ["timer"]
            steps.append(["with", c, _gen_block(rng, cfg, i, T, nest + 1, plain)])
            continue
        r -= pc
        if r < cfg["p_fault"] * 0.25:
            st = ["raise", "e%d" % rng.randint(0, 9)]
            if rng.random() < cfg["base_exc"]:
                st.append("base")
            steps.append(st)
            continue
        r -= cfg["p_fault"] * 0.25
        if r < cfg["p_create"]:
            steps.append(["c", _gen_leaf(rng, cfg, i, T, creatable=True)])
            continue
        r -= cfg["p_create"]
        if r < cfg["p_sync"]:
            leaf = _gen_leaf(rng, cfg, i, T, syncable=True)
            how = "call" if leaf[0] == "call" and rng.random() < 0.6 else "value"
            steps.append(["s", leaf, how])
            continue
        r -= cfg["p_sync"]
        if plain:
            steps.append(["c", ["const", rng.randint(0, 9)]])
        else:
            steps.append(["y", _gen_node(rng, cfg, i, T, 0)])
    if top and rng.random() < cfg["p_result"] * 2:
        mode = rng.choice(["digest", "last", "const"])
        steps.append(["res" if rng.random() < 0.5 else "ret", mode])
    return steps


def _gen_node(rng, cfg, i, T, depth):
    if depth < 3 and rng.random() < cfg["p_container"] / (1 + depth):
        n = rng.randint(0, cfg["fanout"])
        kids = [_gen_node(rng, cfg, i, T, depth + 1) for _ in range(n)]
        r = rng.random()
        if r < cfg["p_dict"]:
            return ["d", [["k%d" % j, c] for j, c in enumerate(kids)]]
        return ["t" if r < (1 + cfg["p_dict"]) / 2 else "l", kids]
    return _gen_leaf(rng, cfg, i, T)


def _gen_leaf(rng, cfg, i, T, creatable=False, syncable=False):
    r = rng.random()
    can_call = i + 1 < T
    if r < cfg["p_call"]:
        if can_call:
            j = rng.randint(i + 1, min(T - 1, i + 3))
            nargs = rng.randint(0, 2) if cfg["p_ref"] > 0 else 0
            return ["call", j, [rng.randint(0, 5) for _ in range(nargs)]]
        if cfg.get("no_items"):
            return ["const", rng.randint(0, 9)]
        return ["item", rng.randint(0, cfg["kinds"] - 1), rng.randint(0, cfg["keys"] - 1)]
    r -= cfg["p_call"]
    if r < cfg["p_item"]:
        if syncable and rng.random() >= cfg["p_item_value_sync"]:
            return ["const", rng.randint(0, 9)]
        return ["item", rng.randint(0, cfg["kinds"] - 1), rng.randint(0, cfg["keys"] - 1)]
    r -= cfg["p_item"]
    if r < cfg.get("p_dd", 0.0):
        return ["dd", rng.randint(0, 2)]
    r -= cfg.get("p_dd", 0.0)
    if r < cfg["p_ref"] and not creatable:
        return ["ref", rng.randint(0, 7)]
    r -= cfg["p_ref"]
    if r < cfg["p_lazy"]:
        if rng.random() < cfg["p_fault"]:
            return ["lazy", "fail", "lf%d" % rng.randint(0, 9)]
        return ["lazy", "ok", "lz%d" % rng.randint(0, 9)]
    r -= cfg["p_lazy"]
    if rng.random() < cfg["p_fault"]:
        x = rng.random()
        if x < 0.5:
            return ["errfut", "ef%d" % rng.randint(0, 9)]
        if not creatable and not syncable:
            return ["bad", rng.choice([42, "str", 1.5])]
    if not creatable and not syncable and rng.random() < 0.3:
        return ["none"]
    return ["const", rng.randint(0, 9)]
