"""C03: exactly-once resumption, start order, termination - program simulation plus parametric
deep shapes (chains tens of thousands of tasks deep, wide trees, request staircases)."""
from ._prog import ProgProp
from .. import real
from ..prog import SimError, HarnessError

A = real.A


class C03(ProgProp):
    id = "C03"
    report = ("C03", "MODEL")
    cfg = {"p_sync": 0.06, "p_try": 0.06, "p_fault": 0.08, "p_create": 0.3, "p_ref": 0.3, "p_container": 0.45,
           "item_faults": 0.03, "flush_faults": 0.05, "flush_cancels": 0.3, "p_item_value_sync": 0.15, "p_ext_tasks": 0.1, "flush_reenter": 0.3}

    def gen(self, rng, tier, k):
        if k % 8 == 7:
            shape = rng.choice(["chain", "chain", "chain", "tree", "staircase"])
            big = tier == "thorough" or rng.random() < 0.25
            if shape == "chain":
                n = rng.choice([1200, 3000, 12000, 40000, 50000]) if big else rng.choice([50, 400, 1100, 2500])
            elif shape == "tree":
                n = rng.choice([(2, 12), (3, 8), (10, 4)]) if big else rng.choice([(2, 6), (3, 4), (5, 3)])
            else:
                n = rng.choice([200, 600]) if big else rng.choice([5, 40, 120])
            return {"deep": shape, "n": n, "leaf": rng.choice(["value", "item", "error", "sync", "sync"]),
                    "catch_at": rng.choice([None, None, 0, 1, 7]), "conv": rng.choice(["call", "value"]),
                    "shared": rng.random() < 0.3}
        if k % 16 == 9:
            from .. import gen as g
            return self.motif_case(rng, tier, g.motif_out_of_band_flush(rng))
        if k % 8 == 5:
            from .. import gen as g
            spec = g.motif_cancel_scheduled(rng)
            spec["keep_prio"] = True
            return self.motif_case(rng, tier, spec)
        if k % 64 == 1:
            return {"deep": "wide", "n": rng.choice([4100, 4500, 6000]) if (tier == "thorough" or rng.random() < 0.5) else rng.choice([30, 1025, 2000]),
                    "leaf": rng.choice(["value", "item"]), "catch_at": None, "conv": rng.choice(["call", "value"]), "shared": False}
        if k % 8 == 3:
            from .. import gen as g
            spec = g.motif_dup_ref(rng)
            nv = self.variants_quick if tier == "quick" else self.variants_thorough
            return {"spec": spec, "variants": [{"conv": ["call", "value", "wrapped"][i % 3], "prio": g.gen_prio(rng, spec["kinds"])}
                                               for i in range(nv)]}
        return ProgProp.gen(self, rng, tier, k)

    def post_spec(self, rng, spec, cfg, tier):
        # every fourth multi-kind program: the first flushes of each kind cancel another kind's
        # pending (and possibly already scheduled) batch - a completed batch that still holds its
        # items sits in the scheduler's set; the tasks blocked on it must still be resumed once
        if spec["kinds"] >= 2 and rng.random() < 0.25 and not spec.get("debug_kinds"):
            fl = spec.setdefault("faults", {}).setdefault("flushes", {})
            for k in range(spec["kinds"]):
                for o in (1, 2):
                    if rng.random() < 0.6:
                        fl.setdefault("%d#%d" % (k, o), {})["cancel_kind"] = (k + rng.randint(1, spec["kinds"] - 1)) % spec["kinds"]

    def sample(self, case, r):
        if "deep" in case:
            return case
        return ProgProp.sample(self, case, r)

    def run(self, case, build):
        if "deep" in case:
            return self._run_deep(case)
        return ProgProp.run(self, case, build)

    def _run_deep(self, case):
        real.reset_world()
        spec = {"templates": [{"kind": "fn", "steps": []}], "root": {"tmpl": 0}, "kinds": 1, "svs": 1, "faults": {}, "prio": {}}
        B = real.RealBackend(spec, ())
        B.setup()
        out = []
        shape = case.get("deep")
        leaf = case.get("leaf", "value")
        catch_at = case.get("catch_at")
        starts = {}
        resumes = {}
        nitem = [0]
        boom = SimError("bottom")

        def item():
            nitem[0] += 1
            return real.SimItem(B.current[0], "d.i%d" % nitem[0], "k", B)

        def mark_start(key):
            starts[key] = starts.get(key, 0) + 1

        def check_resume(key, fut):
            resumes[key] = resumes.get(key, 0) + 1
            if not fut.is_computed():
                out.append(("resumed-while-uncomputed", "level %r resumed while the task it awaits is not computed" % (key,)))
        expected = None
        expected_flushes = None
        total = None
        try:
            if shape == "chain":
                n = int(case.get("n", 10))

                @A.asynq()
                def helper():
                    mark_start("helper")
                    v = yield item()
                    w = yield helper2.asynq()
                    return 0

                @A.asynq()
                def helper2():
                    mark_start("helper2")
                    return 0

                @A.asynq()
                def chain(i):
                    mark_start(i)
                    if i == 0:
                        if leaf == "sync":
                            # a synchronous asynq call made from the bottom of the chain: the
                            # nested wait starts above a task stack that is already n deep
                            return helper()
                        if leaf == "item":
                            v = yield item()
                            return 0
                        if leaf == "error":
                            raise boom
                        return 0
                    child = chain.asynq(i - 1)
                    try:
                        v = yield child
                    except SimError:
                        check_resume(i, child)
                        if catch_at is not None and i == min(catch_at, n):
                            return -1000000
                        raise
                    check_resume(i, child)
                    return v + 1
                total = n + 1 + (2 if leaf == "sync" else 0)
                if leaf == "error":
                    expected = ("V", -1000000 + (n - min(catch_at, n))) if catch_at is not None and min(catch_at, n) >= 1 else ("E", boom)
                else:
                    expected = ("V", n)
                expected_flushes = 1 if leaf in ("item", "sync") else 0
                thunk = (lambda: chain(n)) if case.get("conv") == "call" else (lambda: chain.asynq(n).value())
            elif shape == "wide":
                n = int(case.get("n", 10))
                order = []

                @A.asynq()
                def kid(i):
                    mark_start(i)
                    order.append(i)
                    if leaf == "item":
                        yield item()
                    return i

                @A.asynq()
                def top():
                    mark_start("top")
                    kids = [kid.asynq(i) for i in range(n)]
                    vals = yield (kids if n % 2 else tuple(kids))
                    for kf in kids:
                        if not kf.is_computed():
                            out.append(("resumed-while-uncomputed", "a task yielding %d tasks was resumed before all of them were computed" % n))
                            break
                    resumes["top"] = resumes.get("top", 0) + 1
                    if order != list(range(n)):
                        first = next(j for j in range(len(order)) if order[j] != j)
                        out.append(("start-order", "%d tasks yielded together did not start in the order written: position %d was taken by task %d" % (n, first, order[first])))
                    return sum(vals)
                total = n + 1
                expected = ("V", n * (n - 1) // 2)
                expected_flushes = 1 if leaf == "item" else 0
                thunk = (lambda: top()) if case.get("conv") == "call" else (lambda: top.asynq().value())
            elif shape == "tree":
                fan, depth = case.get("n", (2, 3))

                @A.asynq()
                def tree(d, path):
                    mark_start(path)
                    if d == 0:
                        if leaf == "item":
                            yield item()
                        return 1
                    kids = [tree.asynq(d - 1, path + (j,)) for j in range(fan)]
                    vals = yield (kids if len(path) % 2 else tuple(kids))
                    for kf in kids:
                        if not kf.is_computed():
                            out.append(("resumed-while-uncomputed", "tree node %r resumed before all children computed" % (path,)))
                    resumes[path] = resumes.get(path, 0) + 1
                    return sum(vals)
                total = sum(fan ** i for i in range(depth + 1))
                expected = ("V", fan ** depth)
                expected_flushes = 1 if leaf == "item" else 0
                thunk = lambda: tree(depth, ())
            else:
                n = int(case.get("n", 5))

                @A.asynq()
                def stair(i):
                    mark_start(i)
                    v = yield item()
                    if i == 0:
                        return 0
                    child = stair.asynq(i - 1)
                    w = yield child
                    check_resume(i, child)
                    return w + 1
                total = n + 1
                expected = ("V", n)
                expected_flushes = n + 1
                thunk = lambda: stair(n)
            try:
                got = ("V", thunk())
            except SimError as e:
                got = ("E", e)
        except HarnessError:
            raise
        except BaseException as e:
            got = ("X", "%s: %s" % (type(e).__name__, str(e)[:150]))
        if not out:
            if got[0] != expected[0] or (got[0] == "V" and got[1] != expected[1]) or (got[0] == "E" and got[1] is not expected[1]):
                out.append(("deep-outcome", "%s of %r with a %s at the bottom gave %r, expected %r" % (shape, case.get("n"), leaf, got, expected)))
            elif len(starts) != total or any(c != 1 for c in starts.values()):
                out.append(("deep-started-once", "%d of %d tasks started; start counts other than 1: %r"
                            % (len(starts), total, [k for k, c in starts.items() if c != 1][:3])))
            elif any(c != 1 for c in resumes.values()):
                out.append(("deep-resumed-once", "levels resumed other than exactly once: %r" % ([k for k, c in resumes.items() if c != 1][:3],)))
            elif len([f for f in B.flushes if f["sched"]]) != expected_flushes:
                out.append(("deep-flushes", "%s performed %d flushes, expected %d" % (shape, len(B.flushes), expected_flushes)))
            sch = A.scheduler.get_scheduler()
            if len(sch._tasks):
                out.append(("deep-residue", "%d tasks left on the scheduler" % len(sch._tasks)))
        B.teardown()
        real.reset_world()
        sig = "deep:" + repr(sorted(case.items()))
        return {"violations": out[:3], "stats": {"events": total or 0, "flushes": len(B.flushes), "tasks": total or 0,
                                                 "probes": {"deep_" + str(shape): 1, "deep_tasks_ge_10000": 1 if (total or 0) >= 10000 else 0,
                                                            "deep_beyond_recursion_limit": 1 if shape == "chain" and (total or 0) > 1000 else 0}},
                "sig": sig, "nontrivial": True, "digest": sig + repr(got[0])}


PROP = C03()
