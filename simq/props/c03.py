from ._prog import ProgProp


class C03(ProgProp):
    id = "C03"
    report = ("C03", "MODEL")
    cfg = {"p_sync": 0.06, "p_try": 0.06, "p_fault": 0.08, "p_create": 0.3, "p_ref": 0.3, "p_container": 0.45,
           "item_faults": 0.03}


PROP = C03()
