"""C17: async generators deliver their Values in order, and only those.

Generated @async_generator() bodies (any interleaving of awaits - blocking on a request or not -
and Values, trailing awaits, no Values, nested generators) are driven by generated consumer
histories (list_of_generator, repeated take_first(n>=0), manual next() incl. the misuse "advance
before the previous task is computed", next() after exhaustion), several generators being
consumed concurrently under seeded flush orders."""
from .. import real, gen
from ..prog import SimError, HarnessError

A = real.A
from asynq.generator import async_generator, Value, list_of_generator, take_first, END_OF_GENERATOR  # noqa: E402


class AnyEq(object):
    """A payload with a permissive __eq__ (like unittest.mock.ANY): equal to everything."""

    def __init__(self, n):
        self.n = n

    def __eq__(self, other):
        return True

    def __ne__(self, other):
        return False

    __hash__ = None

    def __repr__(self):
        return "AnyEq(%d)" % self.n


def _payload(v):
    return AnyEq(v[1]) if isinstance(v, (list, tuple)) and len(v) == 2 and v[0] == "anyeq" else v


def _same(a, b):
    """Exact comparison of delivered values against the reference (identity-free, eq-proof)."""
    if isinstance(a, AnyEq) or isinstance(b, AnyEq):
        return isinstance(a, AnyEq) and isinstance(b, AnyEq) and a.n == b.n
    if isinstance(a, tuple) and isinstance(b, tuple) and len(a) == len(b):
        return all(_same(x, y) for x, y in zip(a, b))
    return type(a) is type(b) and a == b


def _same_list(xs, ys):
    return len(xs) == len(ys) and all(_same(x, y) for x, y in zip(xs, ys))


def gen_body(rng, depth=0):
    """Body spec: list of ["v", x] | ["a", blocking] | ["nest", body]."""
    n = rng.choice([0, 1, 2, 3, 4, 5, 6])
    body = []
    for _ in range(n):
        r = rng.random()
        if r < 0.05:
            body.append(["v", ["anyeq", rng.randint(0, 99)]])
        elif r < 0.45:
            body.append(["v", rng.randint(0, 99)])
        elif r < 0.8 or (depth >= 1 and r < 0.9):
            blocking = rng.random() < 0.6
            if depth == 0 and 0.74 <= r < 0.8:
                body.append(["af", blocking])  # an awaited future that fails
            else:
                body.append(["a", blocking])
        elif r < 0.9:
            body.append(["p"])
        else:
            body.append(["nest", gen_body(rng, depth + 1)])
    return body


def ref_values(body):
    out = []
    for st in body:
        if st[0] == "v":
            out.append(_payload(st[1]))
        elif st[0] == "nest":
            out.extend(("n", v) for v in ref_values(st[1]))
    return out


def fail_points(body):
    """For every failing await of the (top-level) body: how many Values precede it."""
    out, cnt = [], 0
    for st in body:
        if st[0] == "v":
            cnt += 1
        elif st[0] == "nest":
            cnt += len(ref_values(st[1]))
        elif st[0] == "af":
            out.append(cnt)
    return out


class SubValue(Value):
    """User subclass of the public Value class."""


class C17(object):
    id = "C17"

    def shrink_budget(self, tier):
        return (300, 25.0)

    def gen(self, rng, tier, k):
        ngen = rng.randint(1, 3)
        gens = []
        for gi_ in range(ngen):
            body = gen_body(rng)
            if k % 50 == 21 and gi_ == 0:
                # far more consecutive awaits of already computed futures than the interpreter's
                # recursion limit, before the next Value
                body = body[:2] + [["a", False]] * rng.choice([1100, 1500]) + [["v", 7]] + body[2:4]
            ops = []
            for _ in range(rng.randint(1, 5)):
                r = rng.random()
                if r < 0.3:
                    ops.append(["list"])
                elif r < 0.7:
                    ops.append(["take", rng.choice([0, 0, 1, 1, 2, 3, 5])])
                elif r < 0.85:
                    ops.append(["next"])
                else:
                    ops.append(["next_twice"])
            gens.append({"body": body, "ops": ops})
        return {"gens": gens, "prio": gen.gen_prio(rng, 3)}

    def sample(self, case, r):
        return case

    def run(self, case, build):
        real.reset_world()
        spec = {"templates": [{"kind": "fn", "steps": []}], "root": {"tmpl": 0}, "kinds": 3, "svs": 1,
                "faults": {}, "prio": case.get("prio", {})}
        B = real.RealBackend(spec, ())
        B.setup()
        out = []
        probes = {}
        nitem = [0]

        def item(kind, who):
            nitem[0] += 1
            return real.SimItem(B.current[kind % 3], "%s.i%d" % (who, nitem[0]), "k", B)

        holder = {}

        @A.asynq()
        def poke(gi):
            """Awaited by a generator body; tries to advance the very generator that awaits it."""
            g = holder.get(gi)
            probes["poke_during_await"] = probes.get("poke_during_await", 0) + 1
            try:
                t = next(g)
            except RuntimeError:
                return "RuntimeError"
            except StopIteration:
                out.append(("misuse-guard", "advancing generator %d from inside one of its own awaits raised StopIteration, not RuntimeError" % gi))
                return "StopIteration"
            out.append(("misuse-guard", "advancing generator %d while its previously returned task is still in flight (inside one of its awaits) did not raise RuntimeError" % gi))
            return "advanced"

        @A.asynq()
        def failing(gi, blocking):
            if blocking:
                yield item(gi, "f%d" % gi)
            raise SimError("await-fails")

        def make(body, gi, progress, top=True):
            @async_generator()
            def g():
                for idx, st in enumerate(body):
                    progress[0] = idx + 1
                    if st[0] == "v":
                        if isinstance(st[1], int) and st[1] % 5 == 3:
                            probes["value_subclass"] = probes.get("value_subclass", 0) + 1
                            yield SubValue(st[1])
                        else:
                            yield Value(_payload(st[1]))
                    elif st[0] == "af":
                        probes["failing_await"] = probes.get("failing_await", 0) + 1
                        got = yield failing.asynq(gi, st[1])
                        # (the failure goes to whoever awaits the step; the body itself goes on)
                    elif st[0] == "p":
                        if top:
                            yield poke.asynq(gi)
                    elif st[0] == "a":
                        if st[1]:
                            got = yield item(gi, "g%d" % gi)
                        else:
                            got = yield A.ConstFuture("c")
                    else:
                        inner_progress = [0]
                        inner = make(st[1], gi, inner_progress, False)()
                        vals = yield list_of_generator.asynq(inner)
                        for v in vals:
                            yield Value(("n", v))
            return g

        def positions_needed(body, nvalues):
            """Index (1-based count of body steps started) needed to produce the first nvalues values."""
            if nvalues <= 0:
                return 0
            cnt = 0
            for idx, st in enumerate(body):
                if st[0] == "v":
                    cnt += 1
                elif st[0] == "nest":
                    cnt += len(ref_values(st[1]))
                if cnt >= nvalues:
                    return idx + 1
            return len(body)

        @A.asynq()
        def consumer(gi, gspec):
            body = gspec["body"]
            ref = ref_values(body)
            progress = [0]
            g = make(body, gi, progress)()
            holder[gi] = g
            consumed = 0  # number of values handed out so far
            fails = fail_points(body)
            nf = 0  # failing awaits already passed
            try:
                repr(g)
                str(g)
            except Exception as e:
                out.append(("repr", "repr() of an async generator raised %s" % type(e).__name__))
            for op in gspec["ops"]:
                if op[0] in ("list", "take") and nf < len(fails) and (
                        op[0] == "list" or (op[1] > 0 and (fails[nf] < consumed + op[1] or len(ref) < consumed + op[1]))):
                    # the helper reaches a failing await: it fails with that error; the Values up
                    # to that point are gone with it, the generator itself can be advanced further
                    try:
                        vals = yield (list_of_generator.asynq(g) if op[0] == "list" else take_first.asynq(g, op[1]))
                    except SimError:
                        consumed = fails[nf]
                        nf += 1
                        probes["helper_failed_midway"] = probes.get("helper_failed_midway", 0) + 1
                        continue
                    out.append(("fault-lost", "%s over a body whose next await fails returned %r instead of raising (body %r)" % (op[0], vals, body)))
                    return
                if op[0] == "list":
                    vals = yield list_of_generator.asynq(g)
                    exp = ref[consumed:]
                    consumed = len(ref)
                    probes["list"] = probes.get("list", 0) + 1
                    if not _same_list(vals, exp):
                        out.append(("list-values", "list_of_generator gave %r, the Values in program order are %r (body %r)" % (vals, exp, body)))
                        return
                elif op[0] == "take":
                    n = op[1]
                    before = progress[0]
                    vals = yield take_first.asynq(g, n)
                    exp = ref[consumed:consumed + n]
                    probes["take_first_%s" % ("0" if n == 0 else "n")] = probes.get("take_first_%s" % ("0" if n == 0 else "n"), 0) + 1
                    if not _same_list(vals, exp):
                        out.append(("take-values", "take_first(gen, %d) after %d values gave %r, expected %r (body %r)" % (n, consumed, vals, exp[:8], str(body)[:300])))
                        return
                    if isinstance(vals, list):
                        vals.append("caller's own addition")  # the returned list belongs to the caller
                    consumed += len(exp)
                    if any(v is END_OF_GENERATOR for v in vals):
                        out.append(("end-marker", "END_OF_GENERATOR leaked into a result"))
                        return
                    # not consuming more than needed: if the n values exist, the body must not have
                    # advanced beyond the step that produced the last of them
                    if n == 0 and progress[0] != before:
                        out.append(("take-overconsume", "take_first(gen, 0) advanced the generator body from step %d to %d" % (before, progress[0])))
                        return
                    if len(exp) == n and n > 0:
                        need = positions_needed(body, consumed)
                        if progress[0] > need:
                            out.append(("take-overconsume", "take_first(gen, %d) advanced the body to step %d; its last value is produced by step %d (body %r)" % (n, progress[0], need, body)))
                            return
                elif op[0] in ("next", "next_twice"):
                    try:
                        t = next(g)
                    except StopIteration:
                        probes["stop_iteration"] = probes.get("stop_iteration", 0) + 1
                        if consumed < len(ref):
                            out.append(("premature-stop", "next() raised StopIteration with %d of %d values delivered" % (consumed, len(ref))))
                            return
                        # an exhausted generator keeps raising
                        try:
                            next(g)
                            out.append(("stop-again", "next() on an exhausted generator did not raise StopIteration again"))
                            return
                        except StopIteration:
                            pass
                        continue
                    if op[0] == "next_twice" and not t.is_computed():
                        probes["advance_before_computed"] = probes.get("advance_before_computed", 0) + 1
                        try:
                            next(g)
                            out.append(("misuse-guard", "advancing the generator before the previous task is computed did not raise RuntimeError"))
                            return
                        except RuntimeError:
                            pass
                        except StopIteration:
                            out.append(("misuse-guard", "advancing before the previous task is computed raised StopIteration, not RuntimeError"))
                            return
                    if nf < len(fails) and fails[nf] == consumed:
                        try:
                            v = yield t
                        except SimError:
                            nf += 1
                            probes["step_failed"] = probes.get("step_failed", 0) + 1
                            continue
                        out.append(("fault-lost", "the step containing a failing await delivered %r instead of raising (body %r)" % (v, body)))
                        return
                    v = yield t
                    if v is END_OF_GENERATOR:
                        probes["end_marker_seen"] = probes.get("end_marker_seen", 0) + 1
                        if consumed < len(ref):
                            out.append(("premature-end", "END_OF_GENERATOR with %d of %d values delivered" % (consumed, len(ref))))
                            return
                    else:
                        if consumed >= len(ref) or not _same(v, ref[consumed]):
                            out.append(("next-value", "next() #%d gave %r, expected %r (body %r)" % (consumed, v, ref[consumed] if consumed < len(ref) else "exhaustion", body)))
                            return
                        consumed += 1
            return consumed

        @A.asynq()
        def root():
            return (yield [consumer.asynq(i, g) for i, g in enumerate(case.get("gens", []))])
        try:
            root()
        except HarnessError:
            raise
        except BaseException as e:
            out.append(("unexpected", "consumers raised %s: %s" % (type(e).__name__, str(e)[:150])))
        nfl = len(B.flushes)
        B.teardown()
        real.reset_world()
        sig = repr(case.get("gens"))
        return {"violations": out[:3], "stats": {"events": len(B.trace), "flushes": nfl, "probes": probes},
                "sig": sig, "nontrivial": any(len(g["body"]) >= 2 for g in case.get("gens", [])),
                "digest": sig + "|" + repr([(f["kind"], f["tokens"]) for f in B.flushes])}


PROP = C17()
