"""C14: collection helpers equal their built-in counterparts, in one batching round; aretry.

The value half has no schedule in it: it is seeded generation against the built-ins (reported as
such).  The simulation half runs every helper inside a computation with competing tasks on other
batch kinds and seeded priorities, and requires all per-element requests of one helper invocation
to travel in one flush; aretry runs against injected failure sequences on the simulated clock."""
import itertools

import zlib

from .. import real, gen
from ..prog import SimError, HarnessError

A = real.A
from asynq import tools as T  # noqa: E402

HELPERS = ["amap", "afilter", "afilterfalse", "asorted", "amax", "amin", "asift", "afilter_none", "aretry"]


class CoarseKey(object):
    """A key whose equality is coarser than its ordering (equal by family, ordered by version):
    max / min / sorted only use <, and so must the helpers."""

    def __init__(self, n):
        self.n = n

    def __lt__(self, other):
        return self.n < other.n

    def __gt__(self, other):
        return self.n > other.n

    def __le__(self, other):
        return self.n <= other.n

    def __ge__(self, other):
        return self.n >= other.n

    def __eq__(self, other):
        return isinstance(other, CoarseKey) and self.n // 2 == other.n // 2

    def __ne__(self, other):
        return not self == other

    def __hash__(self):
        return hash(self.n // 2)

    def __repr__(self):
        return "CK%d" % self.n


class Unorderable(object):
    """Values that cannot be compared with each other (only their keys can)."""

    def __init__(self, n):
        self.n = n

    def __repr__(self):
        return "U%d" % self.n


def _elements(rng, spec_kind):
    n = rng.choice([0, 0, 1, 2, 3, 4, 5, 6])
    vals = []
    for _ in range(n):
        r = rng.random()
        if spec_kind == "unorderable":
            vals.append(("u", rng.randint(0, 3)))
        elif spec_kind == "none" and r < 0.3:
            vals.append(None)
        else:
            vals.append(rng.randint(-3, 4))
    return vals


def _mk(vals):
    return [Unorderable(v[1]) if isinstance(v, (tuple, list)) and len(v) == 2 and v[0] == "u" else v for v in vals]


def _keyval(x, mod):
    if isinstance(x, Unorderable):
        return x.n % mod
    if x is None:
        return 0
    return x % mod


class C14(object):
    id = "C14"

    def shrink_budget(self, tier):
        return (300, 25.0)

    def gen(self, rng, tier, k):
        h = HELPERS[k % len(HELPERS)] if rng.random() < 0.7 else rng.choice(HELPERS)
        ek = rng.choice(["int", "int", "none", "unorderable"])
        case = {"helper": h, "elements": _elements(rng, ek), "container": rng.choice(["list", "tuple", "iter", "gen"]),
                "mod": rng.choice([1, 2, 3, 5]), "blocking": rng.random() < 0.6, "reverse": rng.random() < 0.5,
                "use_key": rng.random() < 0.75, "varargs": rng.random() < 0.3, "key_raises_on": rng.choice([None, None, None, 0, 1]),
                "competitors": rng.randint(0, 3), "prio": gen.gen_prio(rng, 3),
                "k_fail": rng.randint(0, 6), "max_tries": rng.randint(1, 6), "listed": rng.random() < 0.75,
                "multi_exc": rng.random() < 0.3, "concurrent": rng.choice([1, 1, 2, 3]),
                "key_kind": rng.choice(["asynq", "asynq", "made", "method", "proxy"])}
        # (derived from the case, so that the generator's stream is unchanged)
        d = zlib.crc32(repr(sorted(case.items())).encode())
        case["retry_body"] = "proxy_issue" if d % 3 == 0 else "asynq"
        case["coarse_keys"] = (d // 3) % 3 == 0
        case["two_route"] = (d // 9) % 2 == 0
        case["perf"] = (d // 18) % 2 == 0
        return case

    def sample(self, case, r):
        return case

    def run(self, case, build):
        real.reset_world()
        spec = {"templates": [{"kind": "fn", "steps": []}], "root": {"tmpl": 0}, "kinds": 3, "svs": 1,
                "faults": {}, "prio": case.get("prio", {}), "clock": {"seed": 1, "mode": "small"}}
        if case.get("perf"):
            spec["options"] = {"COLLECT_PERF_STATS": True}  # profiling on: batching must be the same
        B = real.RealBackend(spec, ())
        B.setup()
        out = []
        probes = {}
        h = case.get("helper", "amap")
        try:
            if h == "aretry":
                self._run_retry(B, case, out, probes)
            else:
                self._run_helper(B, case, h, out, probes)
        except HarnessError:
            raise
        nfl = len(B.flushes)
        B.teardown()
        real.reset_world()
        sig = repr(sorted(case.items()))
        return {"violations": out[:3], "stats": {"events": len(B.trace), "flushes": nfl, "probes": probes,
                                                 "faults": {"aretry_injected_failures": probes.get("retry_failures", 0), "key_function_raises": probes.get("key_raised", 0)}},
                "sig": sig, "nontrivial": len(case.get("elements", [])) >= 2 or h == "aretry",
                "digest": sig + "|" + repr([(f["kind"], f["tokens"]) for f in B.flushes])}

    def _run_helper(self, B, case, h, out, probes):
        vals = _mk(case.get("elements", []))
        mod = max(1, int(case.get("mod", 2)))
        blocking = bool(case.get("blocking"))
        raise_on = case.get("key_raises_on")
        coarse = bool(case.get("coarse_keys")) and h in ("asorted", "amax", "amin")
        if coarse:
            probes["coarse_equality_keys"] = 1
        nitem = [0]
        my_items = []

        def sync_key(x):
            kv = _keyval(x, mod)
            if raise_on is not None and kv == raise_on and isinstance(x, int) and x < 0:
                # (different elements fail with different exception types: the first one, in
                # iteration order, is what the built-in raises)
                raise (ValueError if x % 2 else KeyError)("key refuses %r" % (x,))
            if coarse:
                return CoarseKey(kv)
            return kv

        @A.asynq()
        def sub_request():
            nitem[0] += 1
            it = real.SimItem(B.current[0], "h.i%d" % nitem[0], "k", B)
            my_items.append(it.tok)
            yield it

        two_route = bool(case.get("two_route"))

        @A.asynq()
        def noop():
            return None

        @A.asynq()
        def akey_plain(x):
            if blocking:
                if two_route and isinstance(x, int) and x % 2:
                    # this element takes another route to the same service: a step that needs no
                    # request, then a sub-task that issues it
                    yield noop.asynq()
                    yield sub_request.asynq()
                else:
                    nitem[0] += 1
                    it = real.SimItem(B.current[0], "h.i%d" % nitem[0], "k", B)
                    my_items.append(it.tok)
                    yield it
            return sync_key(x)
        kk = case.get("key_kind", "asynq")
        if kk == "made":
            # an asynchronous key wrapped by the public make_async_decorator(): has .asynq, is not an AsyncDecorator
            from asynq.decorators import make_async_decorator

            @A.asynq(pure=True)
            def _wrap(*args, **kwargs):
                return (yield akey_plain.asynq(*args, **kwargs))
            akey = make_async_decorator(akey_plain, _wrap, "keywrap")
        elif kk == "method":
            class _K(object):
                @A.asynq()
                def key(self, x):
                    return (yield akey_plain.asynq(x))
            akey = _K().key
        elif kk == "proxy":
            akey = A.async_proxy()(lambda x: akey_plain.asynq(x))
        else:
            akey = akey_plain

        def container():
            c = case.get("container", "list")
            if c == "tuple":
                return tuple(vals)
            if c == "iter":
                return iter(list(vals))
            if c == "gen":
                return (v for v in vals)
            return list(vals)

        use_key = bool(case.get("use_key"))
        rev = bool(case.get("reverse"))
        varargs = bool(case.get("varargs")) and len(vals) >= 2

        def expected():
            if h == "amap":
                return list(map(sync_key, container()))
            if h == "afilter":
                return list(filter(sync_key, container()))
            if h == "afilter_none":
                return list(filter(None, container()))
            if h == "afilterfalse":
                return list(itertools.filterfalse(sync_key, container()))
            if h == "asorted":
                return sorted(container(), key=sync_key if use_key else None, reverse=rev)
            if h in ("amax", "amin"):
                f = max if h == "amax" else min
                if varargs:
                    return f(*vals, key=sync_key) if use_key else f(*vals)
                return f(container(), key=sync_key) if use_key else f(container())
            if h == "asift":
                seq = list(container())
                return ([x for x in seq if sync_key(x)], [x for x in seq if not sync_key(x)])

        def invoke():
            if h == "amap":
                return T.amap.asynq(akey, container())
            if h == "afilter":
                return T.afilter.asynq(akey, container())
            if h == "afilter_none":
                return T.afilter.asynq(None, container())
            if h == "afilterfalse":
                return T.afilterfalse.asynq(akey, container())
            if h == "asorted":
                if use_key:
                    return T.asorted.asynq(container(), key=akey, reverse=rev)
                return T.asorted.asynq(container(), reverse=rev)
            if h in ("amax", "amin"):
                f = T.amax if h == "amax" else T.amin
                if varargs:
                    return f.asynq(*vals, key=akey) if use_key else f.asynq(*vals)
                return f.asynq(container(), key=akey) if use_key else f.asynq(container())
            if h == "asift":
                return T.asift.asynq(akey, container())

        try:
            exp = ("V", expected())
        except Exception as e:
            exp = ("E", type(e).__name__)
            probes["builtin_raises"] = 1
            if isinstance(e, ValueError) and "key refuses" in str(e):
                probes["key_raised"] = 1

        ncomp = int(case.get("competitors", 0))

        @A.asynq()
        def competitor(i):
            got = []
            for j in range(1 + i % 2):
                nitem[0] += 1
                got.append((yield real.SimItem(B.current[1 + (i + j) % 2], "c%d.i%d" % (i, nitem[0]), "k", B)))
            if i % 2 == 0:
                nitem[0] += 1
                got.append((yield real.SimItem(B.current[0], "c%d.i%d" % (i, nitem[0]), "k", B)))
            return got

        @A.asynq()
        def guarded():
            try:
                return ("V", (yield invoke()))
            except Exception as e:
                return ("E", type(e).__name__)

        @A.asynq()
        def root():
            res = yield [guarded.asynq()] + [competitor.asynq(i) for i in range(ncomp)]
            return res[0]

        try:
            got = root()
        except BaseException as e:
            got = ("X", "%s: %s" % (type(e).__name__, str(e)[:100]))
        if got != exp:
            out.append(("value", "%s(%s of %r%s%s) gave %r, the built-in gives %r" % (
                h, case.get("container"), vals, ", key" if use_key else "", ", reverse" if rev and h == "asorted" else "", got, exp)))
            return
        if got[0] == "V" and h == "asorted" and len(vals) >= 2:
            probes["sorted_ties"] = 1 if len(set(_keyval(v, mod) for v in vals)) < len(vals) else 0
        if my_items:
            probes["blocking_key"] = 1
            flushes_with = [f for f in B.flushes if set(f["tokens"]) & set(my_items)]
            if len(flushes_with) != 1:
                out.append(("one-round", "%s over %d elements: its per-element requests travelled in %d flushes %r instead of one"
                            % (h, len(vals), len(flushes_with), [[t for t in f["tokens"] if t in my_items] for f in flushes_with])))
            if ncomp:
                probes["with_competitors"] = 1

    def _run_retry(self, B, case, out, probes):
        kf = int(case.get("k_fail", 0))
        mt = max(1, int(case.get("max_tries", 1)))
        listed = bool(case.get("listed", True))
        clock = real.simenv.clock

        class ListedA(Exception):
            pass

        class ListedB(Exception):
            pass

        class Unlisted(Exception):
            pass
        ninv = int(case.get("concurrent", 1))
        if ninv > 1:
            return self._run_retry_concurrent(B, case, out, probes, ninv)
        calls = [0]
        excs = []

        @A.asynq()
        def body(x, y=0):
            calls[0] += 1
            n = calls[0]
            if case.get("blocking"):
                yield real.SimItem(B.current[0], "r.i%d" % n, "k", B)
            if n <= kf:
                e = (ListedA if n % 2 else ListedB)("fail#%d" % n) if listed else Unlisted("fail#%d" % n)
                excs.append(e)
                raise e
            return ("ok", x, y, n)
        if case.get("retry_body") == "proxy_issue":
            # the retried callable is an async_proxy; an attempt fails while the request is being
            # issued (the .asynq() call itself raises), not while it is awaited
            asynq_body = body

            @A.asynq()
            def later(x, y, n):
                if case.get("blocking"):
                    yield real.SimItem(B.current[0], "r.i%d" % n, "k", B)
                return ("ok", x, y, n)

            @A.async_proxy()
            def body(x, y=0):
                calls[0] += 1
                n = calls[0]
                if n <= kf:
                    e = (ListedA if n % 2 else ListedB)("fail#%d" % n) if listed else Unlisted("fail#%d" % n)
                    excs.append(e)
                    raise e
                return later.asynq(x, y, n)
            probes["retry_issue_time_failure"] = 1
        exc_cls = (ListedA, ListedB) if case.get("multi_exc") or True else ListedA
        wrapped = T.aretry(exc_cls, max_tries=mt, sleep=0.25)(body)
        slept0 = clock.slept
        try:
            got = ("V", wrapped(7, y=8))
        except Exception as e:
            got = ("E", e)
        probes["retry_failures"] = min(kf, calls[0])
        if listed:
            exp_calls = min(kf + 1, mt)
            if kf >= mt:
                exp = ("E", excs[mt - 1] if len(excs) >= mt else None)
            else:
                exp = ("V", ("ok", 7, 8, kf + 1))
            exp_sleeps = exp_calls - 1
        else:
            exp_calls = 1
            exp = ("V", ("ok", 7, 8, 1)) if kf == 0 else ("E", excs[0] if excs else None)
            exp_sleeps = 0
        if calls[0] != exp_calls:
            out.append(("retry-count", "aretry(max_tries=%d) with the first %d attempts raising a%s exception ran the body %d times, expected %d"
                        % (mt, kf, " listed" if listed else "n unlisted", calls[0], exp_calls)))
            return
        if got[0] != exp[0] or (got[0] == "V" and got[1] != exp[1]) or (got[0] == "E" and got[1] is not exp[1]):
            out.append(("retry-outcome", "aretry(max_tries=%d, k=%d, listed=%s) gave %r, expected %r" % (mt, kf, listed, got, exp)))
            return
        if clock.slept - slept0 != exp_sleeps:
            out.append(("retry-sleep", "aretry slept %d times on the simulated clock, expected %d" % (clock.slept - slept0, exp_sleeps)))


    def _run_retry_concurrent(self, B, case, out, probes, ninv):
        """Several invocations of one retried function in flight at the same time (yielded
        together, bodies blocking on requests): each has its own budget of max_tries."""
        mt = max(1, int(case.get("max_tries", 1)))
        kfs = [(int(case.get("k_fail", 0)) + 2 * i) % 5 for i in range(ninv)]

        class Listed(Exception):
            pass
        calls = {}
        nitem = [0]

        @A.asynq()
        def body(who):
            calls[who] = calls.get(who, 0) + 1
            n = calls[who]
            nitem[0] += 1
            yield real.SimItem(B.current[who % 2], "rc.i%d" % nitem[0], "k", B)
            if n <= kfs[who]:
                raise Listed("fail#%d of invocation %d" % (n, who))
            return ("ok", who, n)
        wrapped = T.aretry(Listed, max_tries=mt, sleep=0.01)(body)

        @A.asynq()
        def one(who):
            try:
                return ("V", (yield wrapped.asynq(who)))
            except Listed as e:
                return ("E", str(e))

        @A.asynq()
        def root():
            return (yield [one.asynq(i) for i in range(ninv)])
        try:
            got = root()
        except BaseException as e:
            out.append(("retry-outcome", "concurrent aretry invocations raised %s: %s" % (type(e).__name__, str(e)[:100])))
            return
        probes["retry_concurrent_invocations"] = ninv
        probes["retry_failures"] = sum(min(k, mt) for k in kfs)
        for who in range(ninv):
            k = kfs[who]
            exp_calls = min(k + 1, mt)
            exp = ("E", "fail#%d of invocation %d" % (mt, who)) if k >= mt else ("V", ("ok", who, k + 1))
            if calls.get(who, 0) != exp_calls:
                out.append(("retry-count", "invocation %d of %d concurrent ones (max_tries=%d, its first %d attempts fail) ran its body %d times, expected %d"
                            % (who, ninv, mt, k, calls.get(who, 0), exp_calls)))
                return
            if got[who] != exp:
                out.append(("retry-outcome", "invocation %d of %d concurrent ones gave %r, expected %r" % (who, ninv, got[who], exp)))
                return


PROP = C14()
