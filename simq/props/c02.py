"""C02: failure propagation. Fault enumeration: a fault-free base program (with try/except at
every level) x every failure position (step, leaf of a yielded structure, item, flush)."""
import copy

from ._prog import ProgProp
from .. import gen


def _blocks(steps, path, out):
    out.append(path)
    for i, st in enumerate(steps):
        if st[0] == "try":
            _blocks(st[1], path + (i, 1), out)
            _blocks(st[3], path + (i, 3), out)
        elif st[0] == "with":
            _blocks(st[2], path + (i, 2), out)


def _leaves(node, path, out):
    if node[0] in ("t", "l"):
        for i, c in enumerate(node[1]):
            _leaves(c, path + (1, i), out)
    elif node[0] == "d":
        for i, (k, c) in enumerate(node[1]):
            _leaves(c, path + (1, i, 1), out)
    else:
        out.append(path)


def _get(obj, path):
    for p in path:
        obj = obj[p]
    return obj


def positions(spec):
    """All failure positions of a program: (kind, template, path...)."""
    pos = []
    for ti, t in enumerate(spec["templates"]):
        blocks = []
        _blocks(t["steps"], (), blocks)
        for bp in blocks:
            blk = _get(t["steps"], bp)
            for i in range(len(blk) + 1):
                pos.append(("raise", ti, bp, i))
            for i, st in enumerate(blk):
                if st[0] == "y":
                    lv = []
                    _leaves(st[1], (), lv)
                    for lp in lv:
                        pos.append(("leaf", ti, bp + (i, 1), lp))
                    pos.append(("wrapleaf", ti, bp + (i, 1), ()))
    for k in range(spec["kinds"]):
        for key in range(6):
            pos.append(("item", k, key, None))
        for o in (1, 2, 3):
            pos.append(("flush", k, o, None))
    return pos


def apply(spec, p, rng):
    kind = p[0]
    if kind == "raise":
        blk = _get(spec["templates"][p[1]]["steps"], p[2])
        blk.insert(p[3], ["raise", "e%d" % rng.randint(0, 9)])
    elif kind == "leaf":
        node = _get(spec["templates"][p[1]]["steps"], p[2])
        r = rng.random()
        new = (["errfut", ("ef%d" if r < 0.22 else "stop%d") % rng.randint(0, 9)] if r < 0.35 else
               ["lazy", "fail", "lf%d" % rng.randint(0, 9)] if r < 0.7 else ["bad", rng.choice([42, "s", 1.5])])
        if not p[3]:
            _get(spec["templates"][p[1]]["steps"], p[2][:-1])[p[2][-1]] = new
        else:
            _get(node, p[3][:-1])[p[3][-1]] = new
    elif kind == "wrapleaf":
        # add a failing sibling next to whatever was yielded
        parent = _get(spec["templates"][p[1]]["steps"], p[2][:-1])
        old = parent[p[2][-1]]
        fail = ["errfut", "ef%d" % rng.randint(0, 9)] if rng.random() < 0.5 else ["lazy", "fail", "lf%d" % rng.randint(0, 9)]
        kids = [old, fail] if rng.random() < 0.5 else [fail, old]
        parent[p[2][-1]] = [rng.choice(["t", "l"]), kids]
    elif kind == "item":
        f = rng.choice(["err", "unset"])
        if f == "err" and (p[1] + p[2]) % 2 == 0:
            f = "err_stop"  # the item's error is a StopIteration instance
        spec["faults"]["items"]["%d:%s" % (p[1], p[2])] = f
    elif kind == "flush":
        if rng.random() < 0.3:
            spec["faults"]["flushes"]["%d#%d" % (p[1], p[2])] = {"cancel_self_at": rng.randint(0, 2)}
        else:
            spec["faults"]["flushes"]["%d#%d" % (p[1], p[2])] = {"raise_at": rng.randint(0, 2)}


class C02(ProgProp):
    id = "C02"
    report = ("C02", "MODEL")
    group = 8
    variants_quick = 2
    variants_thorough = 4
    cfg = {"p_try": 0.3, "p_sync": 0.06, "p_ctx": 0.04, "p_fault": 0.0, "max_templates": 6, "p_lazy": 0.1}

    def gen(self, rng, tier, k, base_rng=None):
        brng = base_rng or rng
        cfg = gen.swarm(brng, self.base_cfg(tier))
        spec = gen.gen_program(brng, cfg)
        pos = positions(spec)
        brng.shuffle(pos)
        n = 1 if rng.random() < 0.7 else 2
        chosen = [pos[(k % self.group + j * 17) % len(pos)] for j in range(n)]
        # apply deeper paths first so that earlier insertions do not shift later paths
        chosen.sort(key=lambda p: (p[0] == "raise", str(p)), reverse=False)
        done = []
        for p in chosen:
            try:
                apply(spec, p, rng)
                done.append(list(map(str, p)))
            except (IndexError, KeyError, TypeError, AttributeError):
                pass
        spec["yield_only"] = not gen._has_sync(spec["templates"])
        variants = [{"conv": ["call", "value", "wrapped"][(i + k) % 3], "prio": gen.gen_prio(rng, spec["kinds"])}
                    for i in range(self.variants_quick if tier == "quick" else self.variants_thorough)]
        return {"spec": spec, "variants": variants, "fault_positions": done, "n_positions": len(pos)}

    def sample(self, case, r):
        s = ProgProp.sample(self, case, r)
        s["fault_positions"] = case.get("fault_positions")
        s["candidate_positions_in_base_program"] = case.get("n_positions")
        return s


PROP = C02()
