"""C11: batch lifecycle. History machine over add-item / flush / cancel / item.value() /
batch.value() / batch.error() / state queries on a BatchBase subclass (flush bodies from a fault
plan) and on the built-in DebugBatch, against an explicit reference state machine."""
import zlib

from .. import real, prog
from ..prog import SimError, SimBaseError

A = real.A
BatchingError = A.BatchingError
BatchCancelledError = A.BatchCancelledError


class LItem(A.BatchItemBase):
    def __init__(self, batch, W):
        A.BatchItemBase.__init__(self, batch)
        self.W = W
        self.iid = len(W.items)
        self.done_at = None
        self.on_computed.subscribe(self._done)

    def _done(self, _):
        self.W.ev += 1
        if self.done_at is not None:
            self.W.out.append(("item-once", "item %d completed twice" % self.iid))
        self.done_at = self.W.ev


class LBatch(A.BatchBase):
    def __init__(self, W):
        A.BatchBase.__init__(self)
        self.W = W
        self.bid = len(W.batches)
        W.batches.append(self)
        self.plan = W.plans[self.bid % len(W.plans)] if W.plans else {}
        self.body_runs = 0
        self.announced_at = None
        self.own = []
        self.on_computed.subscribe(self._announced)

    def _announced(self, _):
        W = self.W
        W.ev += 1
        self.announced_at = W.ev
        for it in self.own:
            if not it.is_computed():
                W.out.append(("items-before-batch", "batch %d announced completion while item %d is still pending" % (self.bid, it.iid)))

    def _try_switch_active_batch(self):
        if self.W.cur is self:
            self.W.cur = LBatch(self.W)

    def _flush(self):
        W = self.W
        self.body_runs += 1
        if W.cur is self:
            W.out.append(("switch-before-flush", "batch %d is still the active batch while its flush body runs" % self.bid))
        p = self.plan
        items = list(self.items)
        ra = p.get("raise_at")
        cs = p.get("cancel_self_at")
        for i, it in enumerate(items):
            if cs is not None and cs == i:
                # the body cancels its own batch (e.g. a service timeout) and returns normally
                self.cancel(SimError("E:selfcancel"))
                return
            if ra is not None and ra == i:
                self._raise(p)
            mode = p.get("set", "all")
            if mode == "none" or (mode == "some" and i % 2 == 1):
                continue
            if i in p.get("item_errors", []):
                it.set_error(SimError("ie:%d" % it.iid))
            else:
                it.set_value("v:%d" % it.iid)
        for _ in range(p.get("new_items", 0)):
            ni = W.new_item(None)
            if ni.batch is self:
                W.out.append(("fresh-batch", "item created during the flush of batch %d joined that batch" % self.bid))
        if ra is not None and ra >= len(items):
            self._raise(p)

    def _raise(self, p):
        if p.get("base"):
            raise SimBaseError("fe:%d" % self.bid)
        if self.W.frozen:
            raise FrozenError("fe:%d" % self.bid)
        raise SimError("fe:%d" % self.bid)


class FrozenError(SimError):
    """An immutable exception object (frozen dataclass / attrs style): no attribute can be set on
    it once it is built. A batch only stores and re-raises the error of its flush body."""

    def __init__(self, tag):
        SimError.__init__(self, tag)
        object.__setattr__(self, "_sealed", True)

    def __setattr__(self, name, value):
        if getattr(self, "_sealed", False) and not name.startswith("__"):
            raise AttributeError("cannot assign to field %r of a frozen exception" % name)
        object.__setattr__(self, name, value)


class _World(object):
    def __init__(self, plans, debug):
        self.plans = plans
        self.debug = debug
        self.batches = []
        self.items = []
        self.out = []
        self.ev = 0
        self.dbg_own = {}
        self.frozen = False
        self.dbg_name = "c11"
        if debug:
            A.batching._debug_batch_state.batches.clear()
        else:
            self.cur = LBatch(self)

    def new_item(self, target):
        if self.debug:
            it = A.batching.DebugBatchItem(self.dbg_name, "v:%d" % len(self.items))
            b = it.batch
            if not any(x is b for x in self.batches):
                self.batches.append(b)
                self.dbg_own[id(b)] = []

                def announced(_, b=b):
                    for x in self.dbg_own[id(b)]:
                        if not x.is_computed():
                            self.out.append(("items-before-batch", "debug batch announced completion while an item is still pending"))
                b.on_computed.subscribe(announced)
            self.dbg_own[id(b)].append(it)
        else:
            it = LItem(self.cur if target is None else target, self)
            it.batch.own.append(it)
        self.items.append(it)
        return it


def _tag(e):
    t = _tag0(e)
    if t.startswith("ie:"):
        return "ie"
    if t.startswith("fe:"):
        return "fe"
    return t


def _tag0(e):
    if isinstance(e, BatchCancelledError):
        return "BatchCancelledError"
    if isinstance(e, BatchingError):
        return "BatchingError"
    t = getattr(e, "tag", None)
    if t:
        return t
    if isinstance(e, AssertionError):
        return "unset" if "wasn't set" in str(e) else "AssertionError"
    return type(e).__name__


def _index(lst, x):
    for i, y in enumerate(lst):
        if y is x:
            return i
    raise ValueError("not found")


class RefBatch(object):
    def __init__(self, plan):
        self.state = "pending"
        self.err = None
        self.items = []
        self.plan = plan
        self.runs = 0


class C11(object):
    id = "C11"

    def shrink_budget(self, tier):
        return (300, 20.0)

    def gen(self, rng, tier, k):
        debug = rng.random() < 0.25
        plans = []
        for _ in range(rng.randint(1, 4)):
            p = {"set": rng.choice(["all", "all", "some", "none"])}
            if rng.random() < 0.3:
                p["item_errors"] = [rng.randint(0, 3)]
            if rng.random() < 0.35:
                p["raise_at"] = rng.randint(0, 4)
                if rng.random() < 0.4:
                    p["base"] = True
            if rng.random() < 0.25:
                p["new_items"] = rng.randint(1, 2)
            if rng.random() < 0.12:
                p["cancel_self_at"] = rng.randint(0, 2)
            plans.append(p)
        ops = []
        for _ in range(rng.randint(2, 14)):
            r = rng.random()
            if r < 0.3:
                ops.append(["add", rng.randint(0, 3) if rng.random() < 0.25 else -1])
            elif r < 0.45:
                ops.append(["flush", rng.randint(0, 3)])
            elif r < 0.57:
                ops.append(["cancel", rng.randint(0, 3), rng.random() < 0.5])
            elif r < 0.72:
                ops.append(["item_value", rng.randint(0, 6)])
            elif r < 0.8:
                ops.append(["batch_value", rng.randint(0, 3)])
            elif r < 0.86:
                ops.append(["batch_error", rng.randint(0, 3)])
            elif r < 0.9:
                ops.append(["sub_raise", rng.randint(0, 3)])
            else:
                ops.append(["query", rng.randint(0, 3)])
        case = {"debug": debug, "plans": plans, "ops": ops}
        for n_, op in enumerate(case["ops"]):
            if op[0] == "cancel" and op[2] is True and (n_ + op[1]) % 3 == 0:
                op[2] = "base"
        # one history in four: every exception instance user code raises or passes in is falsy
        dg = zlib.crc32(repr(sorted(case.items())).encode())
        case["falsy_errors"] = dg % 4 == 0
        case["frozen_errors"] = (dg // 4) % 3 == 0
        case["debug_name_none"] = (dg // 12) % 3 == 0
        return case

    def sample(self, case, r):
        return case

    # ---- reference ----------------------------------------------------------------------------
    def _ref_finish(self, W, rb, how, err=None):
        """Applies the reference semantics of finishing batch rb. Returns created item count."""
        if how == "flush":
            rb.runs += 1
            p = rb.plan
            n = len(rb.items)
            ra = p.get("raise_at")
            cs = p.get("cancel_self_at")
            raised = None
            setvals = {}
            selfc = False
            for i in range(n):
                if cs is not None and cs == i:
                    raised = "E:selfcancel"
                    selfc = True
                    break
                if ra is not None and ra == i:
                    raised = "fe"
                    break
                mode = p.get("set", "all")
                if mode == "none" or (mode == "some" and i % 2 == 1):
                    continue
                setvals[i] = ("E", "ie") if i in p.get("item_errors", []) else ("V", None)
            created = 0
            if selfc:
                rb.err = raised
                rb.state = "cancelled"
                for i, ri in enumerate(rb.items):
                    if ri["out"] is None:
                        ri["out"] = setvals[i] if i in setvals else ("E", raised)
                return 0
            if raised is None:
                created = p.get("new_items", 0)
                if ra is not None and ra >= n:
                    raised = "fe"
            rb.err = raised
            rb.state = "flushed" if raised is None else "cancelled"
            for i, ri in enumerate(rb.items):
                if ri["out"] is not None:
                    continue
                if i in setvals:
                    ri["out"] = setvals[i]
                elif raised is not None:
                    ri["out"] = ("E", "fe")
                else:
                    ri["out"] = ("E", "unset")
            return created
        else:
            rb.err = err
            rb.state = "cancelled"
            for ri in rb.items:
                if ri["out"] is None:
                    ri["out"] = ("E", err)
            return 0

    def run(self, case, build):
        real.reset_world()
        prog.FALSY[0] = bool(case.get("falsy_errors"))
        W = _World(case.get("plans") or [{}], bool(case.get("debug")))
        W.frozen = bool(case.get("frozen_errors"))
        if case.get("debug_name_none"):
            W.dbg_name = None  # DebugBatchItem's batch_name may be any hashable, also None
        out = W.out
        refb = []  # RefBatch per real batch index
        refi = []  # dict(batch=idx, out=None) per item
        cur = [0]
        if not W.debug:
            refb.append(RefBatch(W.batches[0].plan))

        def sync_refs():
            # new real batches (created by switching) get reference records
            while len(refb) < len(W.batches):
                b = W.batches[len(refb)]
                refb.append(RefBatch(b.plan if not W.debug else {"set": "all"}))

        def ref_cur():
            # index of the reference's active batch: the newest one that is pending
            for j in range(len(refb) - 1, -1, -1):
                if refb[j].state == "pending":
                    return j
            return None

        def add_ref_item(j):
            refi.append({"batch": j, "out": None})
            refb[j].items.append(refi[-1])

        def finish(j, how, err=None):
            created = self._ref_finish(W, refb[j], how, err)
            return created

        nfl = 0
        obs = []
        for idx, op in enumerate(case.get("ops", [])):
            name = op[0]
            exp = got = None
            try:
                if name == "add":
                    tgt = op[1]
                    if W.debug or tgt < 0 or tgt >= len(W.batches):
                        # add to the active batch
                        it = W.new_item(None)
                        sync_refs()
                        j = _index(W.batches, it.batch)
                        if refb[j].state != "pending":
                            out.append(("add-to-finished", "op #%d: new item joined finished batch %d" % (idx, j)))
                        add_ref_item(j)
                        exp = got = ("V", None)
                    else:
                        exp = ("V", None) if refb[tgt].state == "pending" else ("E", "AssertionError")
                        try:
                            it = W.new_item(W.batches[tgt])
                            add_ref_item(tgt)
                            got = ("V", None)
                        except AssertionError as e:
                            got = ("E", "AssertionError")
                elif name == "sub_raise":
                    # a subscriber of the batch's own completion that raises: flush() / cancel()
                    # must still never raise, and everything else is unaffected
                    if not W.batches:
                        continue
                    b = W.batches[op[1] % len(W.batches)]

                    def boom(_):
                        raise SimError("batch-subscriber-raises")
                    b.on_computed.subscribe(boom)
                    exp = got = ("V", None)
                elif name in ("flush", "cancel", "batch_value", "batch_error", "query"):
                    if not W.batches:
                        continue
                    j = op[1] % len(W.batches)
                    b = W.batches[j]
                    rb = refb[j]
                    if name == "flush":
                        if rb.state == "pending":
                            exp = ("V", None)
                            created = finish(j, "flush")
                            nfl += 1
                        else:
                            exp = ("E", "BatchingError")
                            created = 0
                        try:
                            b.flush()
                            got = ("V", None)
                        except Exception as e:
                            got = ("E", _tag(e))
                        sync_refs()
                        self._adopt_new_items(W, refb, refi)
                    elif name == "cancel":
                        exp = ("V", None)
                        err = "E:cancel" if op[2] else "BatchCancelledError"
                        if rb.state == "pending":
                            finish(j, "cancel", err)
                        try:
                            if op[2] == "base":
                                # e.g. asyncio.CancelledError, KeyboardInterrupt: not an Exception
                                b.cancel(SimBaseError("E:cancel"))
                            elif op[2]:
                                b.cancel(SimError("E:cancel"))
                            else:
                                b.cancel()
                            got = ("V", None)
                        except BaseException as e:
                            got = ("E", _tag(e))
                        sync_refs()
                    elif name == "batch_value":
                        if rb.state == "pending":
                            finish(j, "flush")
                            nfl += 1
                        exp = ("E", rb.err) if rb.err is not None else ("V", None)
                        try:
                            got = ("V", b.value())
                        except BaseException as e:
                            got = ("E", _tag(e))
                        sync_refs()
                        self._adopt_new_items(W, refb, refi)
                    elif name == "batch_error":
                        if rb.state == "pending":
                            finish(j, "flush")
                            nfl += 1
                        exp = ("V", rb.err)
                        try:
                            e = b.error()
                            got = ("V", None if e is None else _tag(e))
                        except BaseException as e:
                            got = ("E", _tag(e))
                        sync_refs()
                        self._adopt_new_items(W, refb, refi)
                    else:
                        exp = ("V", (rb.state != "pending", rb.state == "cancelled", rb.state != "pending"))
                        got = ("V", (bool(b.is_flushed()), bool(b.is_cancelled()), bool(b.is_computed())))
                elif name == "item_value":
                    if not W.items:
                        continue
                    i = op[1] % len(W.items)
                    it = W.items[i]
                    ri = refi[i]
                    rb = refb[ri["batch"]]
                    if ri["out"] is None:
                        if rb.state == "pending":
                            finish(ri["batch"], "flush")
                            nfl += 1
                    o = ri["out"]
                    exp = ("V", "v") if o[0] == "V" else ("E", o[1])
                    try:
                        v = it.value()
                        got = ("V", "v")
                        if v != "v:%d" % i:
                            got = ("V", "wrong:%r" % (v,))
                    except BaseException as e:
                        got = ("E", _tag(e))
                    sync_refs()
                    self._adopt_new_items(W, refb, refi)
            except BaseException as e:
                got = ("E", "UNEXPECTED:%s:%s" % (type(e).__name__, str(e)[:100]))
            obs.append((name, got))
            if exp != got:
                out.append(("operation", "op #%d %s -> %r, reference state machine says %r (history %s, plans %s)"
                            % (idx, op, got, exp, case["ops"][:idx + 1], case.get("plans"))))
            if out:
                break
            # cross-invariants
            for j, b in enumerate(W.batches):
                rb = refb[j]
                if bool(b.is_computed()) != (rb.state != "pending"):
                    out.append(("state", "batch %d is_computed()=%s after op #%d %s, reference state %s" % (j, b.is_computed(), idx, op, rb.state)))
                    break
                if not W.debug and b.body_runs != rb.runs:
                    out.append(("flush-once", "flush body of batch %d ran %d times after op #%d %s, reference %d" % (j, b.body_runs, idx, op, rb.runs)))
                    break
            for i, it in enumerate(W.items):
                if i < len(refi) and bool(it.is_computed()) != (refi[i]["out"] is not None):
                    out.append(("item-state", "item %d is_computed()=%s after op #%d %s, reference %s" % (i, it.is_computed(), idx, op, refi[i]["out"])))
                    break
            if out:
                break
        real.reset_world()
        sig = ("D" if W.debug else "L") + ":" + ",".join(o[0] for o in case.get("ops", [])) + ":" + repr(case.get("plans"))
        return {"violations": out, "stats": {"events": len(case.get("ops", [])), "faults": {"flush_bodies_run": nfl},
                                             "probes": {"debugbatch": 1 if W.debug else 0}},
                "sig": sig, "nontrivial": nfl >= 1, "digest": sig + "|" + repr(obs)}

    def _adopt_new_items(self, W, refb, refi):
        # items created by flush bodies (plan.new_items) appear in W.items beyond the reference list
        while len(refi) < len(W.items):
            it = W.items[len(refi)]
            j = _index(W.batches, it.batch)
            while len(refb) <= j:
                refb.append(RefBatch(W.batches[len(refb)].plan if not W.debug else {"set": "all"}))
            refi.append({"batch": j, "out": None})
            refb[j].items.append(refi[-1])
            if refb[j].state != "pending":
                W.out.append(("fresh-batch", "an item created during a flush belongs to finished batch %d" % j))


PROP = C11()
