from ._prog import ProgProp


class C07(ProgProp):
    id = "C07"
    report = ("C07",)
    cfg = {"p_sync": 0.08, "p_try": 0.1, "p_fault": 0.1, "p_ctx": 0.08, "p_sv": 0.35, "p_create": 0.25, "p_ref": 0.25,
           "item_faults": 0.04, "p_item": 0.5, "p_na": 0.05}

    def tune(self, rng, cfg, tier):
        if rng.random() < 0.25:
            # abandoned-task motif: a task holding an override is left suspended for good when the
            # task awaiting it fails inside a NonAsyncContext; it is finalised after the computation
            cfg.update(p_na=0.25, p_try=0.25, p_sv=0.45, p_item=0.6, p_fault=0.0, p_create=0.05, p_ref=0.05)
            cfg["n_templates"] = rng.randint(2, 4)
        if cfg["p_na"] > 0:
            cfg["p_sync"] = 0.0
        return cfg


    def gen(self, rng, tier, k):
        if k % 16 == 7:
            from .. import gen as g
            return self.motif_case(rng, tier, g.motif_base_hook_fault(rng))
        if k % 16 == 11:
            from .. import gen as g
            # a synchronous call that needs a flush, then an override entered in the same step and
            # held across suspensions while siblings (which must not see it) run
            spec = g.motif_sync_then_ctx(rng, [["sv", 0, 7], ["sv", 1, 8], ["attr", 9]])
            spec["svs"] = 2
            # the sibling reads the scoped values at every step
            return self.motif_case(rng, tier, spec)
        r0 = rng.random()
        if r0 < 0.25:
            from .. import gen as g
            spec = g.motif_shared_override(rng) if r0 < 0.15 else g.motif_abandoned(rng)
            nv = self.variants_quick if tier == "quick" else self.variants_thorough
            case = {"spec": spec, "variants": [{"conv": ["call", "value", "wrapped"][i % 3], "prio": g.gen_prio(rng, spec["kinds"])}
                                               for i in range(nv)]}
        else:
            case = ProgProp.gen(self, rng, tier, k)
        # in 40% of the cases overrides are made through the public AsyncScopedValue.override()
        # (no harness subclass: reads and restoration are still checked, the LIFO log is not)
        if rng.random() < 0.4:
            case["spec"]["plain_overrides"] = True
        elif rng.random() < 0.15:
            # a context hook that raises a BaseException (not an Exception) at a seeded point: the
            # other overrides must still be undone
            case["spec"].setdefault("faults", {}).setdefault("ctx", {})["#%d" % rng.randint(1, 4)] = [rng.choice(["pause", "resume"]), rng.randint(2, 3), "base"]
            case["spec"]["ctx_fault"] = True
        import json
        import zlib
        dg = zlib.crc32(json.dumps(case["spec"]["templates"], sort_keys=True).encode())
        if dg % 8 == 1 and not case["spec"].get("ctx_fault"):
            # a completion subscriber raises (Exception or BaseException) out of the scheduler loop:
            # whatever the awaiting tasks had overridden must be back when the error reaches the caller
            case["spec"].setdefault("faults", {})["callbacks"] = {"#%d" % (1 + (dg // 8) % 6): "base" if (dg // 48) % 2 else True}
            case["spec"]["ctx_fault"] = True
        if dg % 8 == 0 and not case["spec"].get("ctx_fault"):
            # the computation is stopped by the runaway-recursion guard (RuntimeError): whatever
            # was overridden at that moment must be back when the error reaches the caller
            case["spec"]["max_stack"] = 2 + (dg // 8) % 5
            case["spec"]["ctx_fault"] = True  # (no value oracle for a computation cut short)
        return case


PROP = C07()
