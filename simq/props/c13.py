"""C13: async caches behave like their reference cache for every call history.

alru_cache (maxsize 1..4, default key and key_fn), acached_per_instance (1-3 instances, instance
death + gc, a new instance afterwards) and alazy_constant(ttl) on the simulated clock with
dirty().  Bodies block on a batch or not, raise or not.  Histories are sequences of steps; a step
yields one or several calls together.  The reference cache is driven by observable events."""
import gc

from .. import real, gen
from ..prog import SimError, HarnessError

A = real.A
from asynq.tools import alru_cache, acached_per_instance, alazy_constant  # noqa: E402

FORMS = ["pos", "kwb", "kwc", "allkw", "default"]


def spell(a, b, c, form):
    """A way of writing the call f(a, b=0, *, c=0)."""
    if form == "pos":
        args, kw = (a, b), {"c": c}
    elif form == "kwb":
        args, kw = (a,), {"b": b, "c": c}
    elif form == "allkw":
        args, kw = (), {"a": a, "b": b, "c": c}
    elif form == "default":
        args, kw = (a,), {}
        if b != 0:
            kw["b"] = b
        if c != 0:
            kw["c"] = c
    else:
        args, kw = (a, b), ({"c": c} if c != 0 else {})
    return args, kw


class _W(object):
    def __init__(self, case):
        spec = {"templates": [{"kind": "fn", "steps": []}], "root": {"tmpl": 0}, "kinds": 2, "svs": 1,
                "faults": {}, "prio": case.get("prio", {}), "clock": {"seed": 0, "mode": "zero"}}
        self.B = real.RealBackend(spec, ())
        self.B.setup()
        self.serial = 0
        self.nitem = 0
        self.log = []  # ("start"/"end", serial, key)
        self.none_runs = []
        self.none_mark = 0
        self.out = []
        self.probes = {}
        self.fail_serials = set(case.get("fail_serials", []))
        self.plain_mode = bool(case.get("plain_result")) and case.get("target") == "per_instance"

    def probe(self, k):
        self.probes[k] = self.probes.get(k, 0) + 1

    def body(self, who, a, b, c):
        self.serial += 1
        s = self.serial
        key = (who, a, b, c)
        self.log.append(("start", s, key))
        if a % 2 == 1:
            self.nitem += 1
            yield real.SimItem(self.B.current[(a // 2) % 2], "i%d" % self.nitem, "k", self.B)
        self.log.append(("end", s, key))
        if a >= 8 or (s in self.fail_serials and a != 4):
            # (a >= 8: this key always fails; fail_serials: the n-th body run of the history fails)
            raise SimError("body:%r#%d" % (key, s))
        if a == 4:
            self.none_runs.append((key, s))
            return None  # a legitimate result that happens to be None
        return (who, a, b, c, s)


def _plain_body(W, who, a, b, c):
    """The same body as _W.body, written as a plain (non-generator) function: never blocks."""
    W.serial += 1
    s = W.serial
    key = (who, a, b, c)
    W.log.append(("start", s, key))
    W.log.append(("end", s, key))
    if a >= 8 or (s in W.fail_serials and a != 4):
        raise SimError("body:%r#%d" % (key, s))
    if a == 4:
        W.none_runs.append((key, s))
        return None
    return (who, a, b, c, s)


class _Skip(Exception):
    """The case mixes a None-valued call into a multi-call step: not judged."""


class RefLRU(object):
    def __init__(self, cap):
        self.cap = cap
        self.d = {}  # key -> value (insertion ordered = recency)

    def get(self, k):
        if k in self.d:
            v = self.d.pop(k)
            self.d[k] = v
            return True, v
        return False, None

    def put(self, k, v):
        if k in self.d:
            self.d.pop(k)
        elif self.cap is not None and len(self.d) == self.cap:
            self.d.pop(next(iter(self.d)))
        self.d[k] = v


class C13(object):
    id = "C13"

    def shrink_budget(self, tier):
        return (300, 25.0)

    def gen(self, rng, tier, k):
        if k % 40 == 17:
            # two calls for one key in flight on one instance (or function): the first stores its
            # result, the body of the second fails afterwards; the stored result must survive
            who, a, b, c = rng.randint(0, 2), rng.choice([1, 3, 5]), rng.choice([0, 1]), rng.choice([0, 1])
            call = [who, a, b, c, "pos"]
            other = [who, rng.choice([0, 2]), 0, 0, "pos"]
            steps = [["call", [other]]] if rng.random() < 0.5 else []
            n0 = len(steps)
            steps += [["call", [list(call), list(call)]], ["call", [list(call)]], ["call", [list(call)]]]
            return {"target": rng.choice(["per_instance", "per_instance", "alru"]), "maxsize": rng.randint(2, 4), "ttl": 0, "clock_origin": None,
                    "lazy_blocks": False, "lazy_fail_every": 0, "steps": steps, "prio": gen.gen_prio(rng, 2),
                    "fail_serials": [n0 + 2], "shared_deco": False}
        target = ["alru", "alru", "alru_keyfn", "per_instance", "lazy"][k % 5] if rng.random() < 0.6 else rng.choice(["alru", "alru_keyfn", "per_instance", "lazy"])
        steps = []
        avals = rng.sample([0, 1, 2, 3, 4, 5, 8, 9], rng.randint(1, 4))

        def call(single=True):
            a = rng.choice(avals)
            if a == 4 and not single:
                a = 2
            return [rng.randint(0, 2), a, rng.choice([0, 0, 1, 2]), rng.choice([0, 0, 1]), rng.choice(FORMS)]
        for _ in range(rng.randint(2, 10)):
            r = rng.random()
            if target == "lazy":
                if r < 0.55:
                    steps.append(["call", rng.randint(1, 2 if rng.random() < 0.8 else 3)])
                elif r < 0.75:
                    steps.append(["dirty"])
                else:
                    steps.append(["tick", rng.choice([1, 10, 99, 100, 101, 1000, 10 ** 7])])
            else:
                if target == "per_instance" and r < 0.12:
                    steps.append(["kill", rng.randint(0, 2)])
                elif r < 0.75:
                    steps.append(["call", [call()]])
                else:
                    steps.append(["call", [call(False) for _ in range(rng.randint(2, 3))]])
        return {"target": target, "maxsize": rng.randint(1, 4), "ttl": rng.choice([0, 100, 100, 1000, 86400 * 10 ** 6]),
                "clock_origin": rng.choice([None, None, 5, 50, 10 ** 9]),
                "lazy_blocks": rng.random() < 0.5, "lazy_fail_every": rng.choice([0, 0, 2, 3]),
                "steps": steps, "prio": gen.gen_prio(rng, 2),
                # the n-th body run of the history fails (whatever its key)
                "fail_serials": sorted(rng.sample(range(1, 13), rng.randint(1, 3))) if rng.random() < 0.3 else [],
                # one configured decorator object applied to two functions
                "shared_deco": rng.random() < 0.3,
                "plain_result": sum(len(st) for st in steps) % 3 == 0}

    def sample(self, case, r):
        return case

    def run(self, case, build):
        real.reset_world()
        W = _W(case)
        t = case.get("target", "alru")
        try:
            if t == "lazy":
                self._run_lazy(W, case)
            elif t == "per_instance":
                self._run_instances(W, case)
            else:
                self._run_alru(W, case, t == "alru_keyfn")
        except HarnessError:
            raise
        except _Skip:
            del W.out[:]
        W.B.teardown()
        real.reset_world()
        sig = repr((t, case.get("maxsize"), case.get("steps")))
        return {"violations": W.out[:3], "stats": {"events": len(W.log), "flushes": len(W.B.flushes), "probes": W.probes},
                "sig": sig, "nontrivial": W.probes.get("hit", 0) >= 1 and W.probes.get("miss", 0) >= 1,
                "digest": sig + "|" + repr(W.log) + repr([f["tokens"] for f in W.B.flushes])}

    # ---- alru_cache ---------------------------------------------------------------------------
    def _judge_step(self, W, ref, calls, results, keyf, who_of, step_no):
        """calls: [(who, a, b, c)], results: [("V", value)|("E", tag)] in written order.
        Lookups happen in written order when the wrapper tasks start; a non-blocking body stores
        at once, a blocking body stores when it ends (order taken from the log)."""
        pending = []
        for (who, a, b, c), res in zip(calls, results):
            k = keyf(who, a, b, c)
            if a == 4:
                # None-valued results carry no serial: judge them by the body-run log, in
                # single-call steps only (the log then belongs to exactly this call)
                if len(calls) != 1:
                    raise _Skip()
                hit, v = ref.get(k)
                ran = len(W.none_runs) - W.none_mark
                W.probe("none_valued_result")
                if res != ("V", None) and not (hit and v is not None):
                    W.out.append(("none-value", "step %d: call %r gave %r" % (step_no, (who, a, b, c), res)))
                    return
                if hit and v is None and ran != 0:
                    W.out.append(("hit-value", "step %d: call %r must be a cache hit (the cached result is None) but the body ran again" % (step_no, (who, a, b, c))))
                    return
                if hit:
                    W.probe("hit")
                    if res != ("V", v):
                        W.out.append(("hit-value", "step %d: call %r must be a cache hit returning %r but gave %r" % (step_no, (who, a, b, c), v, res)))
                        return
                    continue
                W.probe("miss")
                if ran != 1:
                    W.out.append(("miss-ran-body", "step %d: call %r is a miss but the body ran %d times" % (step_no, (who, a, b, c), ran)))
                    return
                ref.put(k, None)
                continue
            hit, v = ref.get(k)
            if hit:
                W.probe("hit")
                if res != ("V", v):
                    W.out.append(("hit-value", "step %d: call %r must be a cache hit returning %r but gave %r" % (step_no, (who, a, b, c), v, res)))
                    return
                continue
            W.probe("miss")
            # a miss: the body must have run for exactly this call
            if a >= 8 or (res[0] == "E" and res[1].startswith("body:%r#" % ((who_of(who), a, b, c),))
                          and int(res[1].rsplit("#", 1)[1]) in W.fail_serials):
                if res[0] != "E" or not res[1].startswith("body:%r" % ((who_of(who), a, b, c),)):
                    W.out.append(("miss-error", "step %d: call %r must run its (raising) body, but gave %r" % (step_no, (who, a, b, c), res)))
                    return
                if int(res[1].rsplit("#", 1)[1]) in self.seen:
                    W.out.append(("miss-ran-body", "step %d: call %r is a miss but was served the failure of an earlier body run %r" % (step_no, (who, a, b, c), res[1])))
                    return
                self.seen.add(int(res[1].rsplit("#", 1)[1]))
                W.probe("failing_body")
                continue  # failures are not cached
            if res[0] != "V" or tuple(res[1][:4]) != (who_of(who), a, b, c):
                W.out.append(("miss-value", "step %d: call %r missed the cache and must return its own fresh result, but gave %r" % (step_no, (who, a, b, c), res)))
                return
            if res[1][4] in self.seen:
                W.out.append(("miss-ran-body", "step %d: call %r is a miss in the reference cache but was served the result of an earlier body run %r" % (step_no, (who, a, b, c), res[1])))
                return
            self.seen.add(res[1][4])
            if a % 2 == 0 or W.plain_mode:
                ref.put(k, res[1])
            else:
                pending.append((res[1][4], k, res[1]))
        if pending:
            W.probe("concurrent_miss")
            order = [s for (e, s, key) in W.log if e == "end"]
            pending.sort(key=lambda p: order.index(p[0]) if p[0] in order else 10 ** 9)
            for s, k, v in pending:
                ref.put(k, v)

    def _drive(self, W, make_calls):
        """Runs one step: make_calls() -> list of futures, yielded together; returns outcomes."""
        W.none_mark = len(W.none_runs)
        @A.asynq()
        def one(fut):
            try:
                return ("V", (yield fut))
            except SimError as e:
                return ("E", e.tag)

        @A.asynq()
        def step():
            futs = make_calls()
            return (yield [one.asynq(f) for f in futs])
        return step()

    def _run_alru(self, W, case, keyfn):
        self.seen = set()
        self.none_seen = 0
        maxsize = max(1, int(case.get("maxsize", 2)))

        def body(a, b=0, *, c=0):
            return (yield from W.body("f", a, b, c))
        def body2(a, b=0, *, c=0):
            return (yield from W.body("g", a, b, c))
        inner = A.asynq()(body)
        inner2 = A.asynq()(body2)
        if keyfn:
            def key_fn(args, kwargs):
                # only `a` matters for this function's users
                return args[0] if args else kwargs["a"]
            deco = alru_cache(maxsize=maxsize, key_fn=key_fn)
            keyf = lambda who, a, b, c: a
        else:
            deco = alru_cache(maxsize=maxsize)
            keyf = lambda who, a, b, c: (a, b, c)
        shared = bool(case.get("shared_deco"))
        # the configured decorator object may be kept and applied to several functions: each
        # decorated function has a cache of its own
        fns = {"f": deco(inner), "g": deco(inner2) if shared else None}
        refs = {"f": RefLRU(maxsize), "g": RefLRU(maxsize)}
        for n, st in enumerate(case.get("steps", [])):
            if st[0] != "call":
                continue
            calls = [("g" if (shared and who == 2) else "f", a, b, c) for (who, a, b, c, form) in st[1]]
            forms = [spell(a, b, c, form) for (_, a, b, c, form) in st[1]]
            try:
                results = self._drive(W, lambda: [fns[cl[0]].asynq(*args, **kw) for cl, (args, kw) in zip(calls, forms)])
            except BaseException as e:
                W.out.append(("unexpected", "step %d raised %s: %s" % (n, type(e).__name__, str(e)[:120])))
                return
            for name in ("f", "g"):
                idx = [j for j, cl in enumerate(calls) if cl[0] == name]
                if idx:
                    if name == "g":
                        W.probe("second_function_of_one_decorator_object")
                    self._judge_step(W, refs[name], [calls[j] for j in idx], [results[j] for j in idx], keyf, lambda w: w, n)
                if W.out:
                    return

    # ---- acached_per_instance -------------------------------------------------------------------
    def _run_instances(self, W, case):
        self.seen = set()
        self.none_seen = 0

        class K(object):
            def __init__(self, n):
                self.n = n

            if case.get("plain_result"):
                # a plain (non-generator) body that hands its value back through asynq.result()
                @acached_per_instance()
                @A.asynq()
                def m(self, a, b=0, *, c=0):
                    A.result(_plain_body(W, self.n, a, b, c))
            else:
                @acached_per_instance()
                @A.asynq()
                def m(self, a, b=0, *, c=0):
                    return (yield from W.body(self.n, a, b, c))
        # instance 1 is falsy (an empty container): truth value must not matter for its cache
        FK = type("FK", (K,), {"__len__": lambda self: 0})
        gen_no = [0, 0, 0]
        objs = [(FK if i == 1 else K)((i, 0)) for i in range(3)]
        refs = [RefLRU(None) for _ in range(3)]
        cache = K.m.__acached_per_instance_cache__ if hasattr(K.m, "__acached_per_instance_cache__") else None
        for n, st in enumerate(case.get("steps", [])):
            if st[0] == "kill":
                i = st[1] % 3
                W.probe("instance_killed")
                had = bool(refs[i].d)
                objs[i] = None
                gc.collect()
                if cache is not None:
                    live = sum(1 for j in range(3) if objs[j] is not None and (refs[j].d or refs[j].touched))
                    if len(cache) > live:
                        W.out.append(("vanish", "step %d: %d per-instance caches are held although only %d instances with cached calls are alive" % (n, len(cache), live)))
                        return
                gen_no[i] += 1
                objs[i] = (FK if i == 1 else K)((i, gen_no[i]))
                refs[i] = RefLRU(None)
                continue
            if st[0] != "call":
                continue
            calls = [(who % 3, a, b, c) for (who, a, b, c, form) in st[1]]
            forms = [spell(a, b, c, form) for (_, a, b, c, form) in st[1]]
            try:
                results = self._drive(W, lambda: [objs[who].m.asynq(*args, **kw) for (who, _, _, _), (args, kw) in zip(calls, forms)])
            except BaseException as e:
                W.out.append(("unexpected", "step %d raised %s: %s" % (n, type(e).__name__, str(e)[:120])))
                return
            # per instance judgement (each instance has its own reference cache)
            for i in range(3):
                idx = [j for j, cl in enumerate(calls) if cl[0] == i]
                if idx:
                    refs[i].touched = True
                    self._judge_step(W, refs[i], [calls[j] for j in idx], [results[j] for j in idx],
                                     lambda who, a, b, c: (a, b, c), lambda w: objs[w].n, n)
                if W.out:
                    return

    # ---- alazy_constant -----------------------------------------------------------------------------
    def _run_lazy(self, W, case):
        ttl = int(case.get("ttl", 0))
        clock = real.simenv.clock
        if case.get("clock_origin") is not None:
            # the reading is "microseconds since some origin": also exercise an origin so recent
            # that ttl exceeds the current reading (e.g. a monotonic clock shortly after boot)
            clock.now = int(case["clock_origin"])
            clock.start = clock.now
        blocks = bool(case.get("lazy_blocks"))
        fail_every = int(case.get("lazy_fail_every", 0))
        runs = [0]

        @alazy_constant(ttl=ttl)
        @A.asynq()
        def const():
            runs[0] += 1
            r = runs[0]
            if blocks:
                W.nitem += 1
                yield real.SimItem(W.B.current[0], "i%d" % W.nitem, "k", W.B)
            if fail_every and r % fail_every == 0:
                raise SimError("lazy-body#%d" % r)
            return ("const", r)
        ref_time = 0  # 0 = nothing cached
        ref_val = None
        for n, st in enumerate(case.get("steps", [])):
            if st[0] == "tick":
                clock.now += int(st[1])
                W.probe("clock_advanced")
                continue
            if st[0] == "dirty":
                const.dirty()
                ref_time = 0
                W.probe("dirty")
                continue
            k = max(1, int(st[1]))
            before = runs[0]
            now = clock.now
            try:
                results = self._drive(W, lambda: [const.asynq() for _ in range(k)])
            except BaseException as e:
                W.out.append(("unexpected", "step %d raised %s: %s" % (n, type(e).__name__, str(e)[:120])))
                return
            exact = (k == 1 or not blocks)
            if exact:
                # sequential semantics: simulate the k calls one after another
                r = before
                exp = []
                t_ref, v_ref = ref_time, ref_val
                for _ in range(k):
                    stale = t_ref == 0 or (ttl != 0 and t_ref < now - ttl)
                    if not stale:
                        W.probe("hit")
                        exp.append(("V", v_ref))
                        continue
                    W.probe("miss")
                    if t_ref != 0:
                        W.probe("ttl_expired")
                    r += 1
                    if fail_every and r % fail_every == 0:
                        W.probe("failing_body")
                        exp.append(("E", "lazy-body#%d" % r))
                    else:
                        v_ref = ("const", r)
                        t_ref = clock.now
                        exp.append(("V", v_ref))
                if runs[0] != r:
                    W.out.append(("lazy-recompute", "step %d: the body must run %d time(s) for these %d call(s) (cached age %s us, ttl %d) but ran %d time(s)"
                                  % (n, r - before, k, (now - ref_time) if ref_time else None, ttl, runs[0] - before)))
                    return
                if results != exp:
                    W.out.append(("lazy-value", "step %d: calls gave %r, the reference constant cache gives %r" % (n, results, exp)))
                    return
                ref_time, ref_val = t_ref, v_ref
            else:
                W.probe("concurrent_miss")
                ran = runs[0] - before
                stale = ref_time == 0 or (ttl != 0 and ref_time < now - ttl)
                if not stale:
                    W.probe("hit")
                    if ran != 0 or any(res != ("V", ref_val) for res in results):
                        W.out.append(("lazy-hit", "step %d: the constant is cached but %d body runs happened / results %r" % (n, ran, results)))
                        return
                    continue
                if not (1 <= ran <= k):
                    W.out.append(("lazy-recompute", "step %d: %d concurrent calls ran the body %d times" % (n, k, ran)))
                    return
                for res in results:
                    if res[0] == "V" and not (isinstance(res[1], tuple) and res[1][0] == "const" and before < res[1][1] <= runs[0]):
                        W.out.append(("lazy-value", "step %d: concurrent call gave %r, not the result of one of this step's body runs" % (n, res)))
                        return
                # which of the concurrent runs stored last is not observable here: resynchronise
                const.dirty()
                ref_time = 0


PROP = C13()
