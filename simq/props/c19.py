"""C19: asynq.mock.patch replaces every calling convention and always restores.

Stateful histories: with-blocks, decorators and start/stop/stopall activations (nested and
sequential, exits by normal leave, exception, stop(), stopall()) of patches on a module function,
method, classmethod, staticmethod and plain attribute, with replacement kinds default mock /
function / bound method / callable object / new_callable / non-callable.  Reference: a per-target
stack.  While active, the four conventions (the yielded one inside a simulated computation with
competing tasks, .asyncio() on an event loop) must reach the replacement with the given arguments
and agree; after every deactivation the attribute must be what the model says."""
import asyncio
import sys
import types
import zlib
from unittest import mock as umock

from .. import real, gen
from ..prog import SimError, HarnessError

A = real.A
amock = A.mock

MODNAME = "simq_c19_target"
TARGETS = ["fn", "meth", "cmeth", "smeth", "attr"]
REPLS = ["default", "function", "bound", "callable", "callable_shared", "returns_future", "new_callable", "noncallable"]


def build_module():
    m = types.ModuleType(MODNAME)
    src = '''
import asynq

@asynq.asynq()
def fn(a, b=0):
    return ("orig", "fn", a, b)

class Cls(object):
    @asynq.asynq()
    def meth(self, a, b=0):
        return ("orig", "meth", self.tag, a, b)

    @asynq.asynq()
    @classmethod
    def cmeth(cls, a, b=0):
        return ("orig", "cmeth", cls.__name__, a, b)

    @asynq.asynq()
    @staticmethod
    def smeth(a, b=0):
        return ("orig", "smeth", a, b)

    def __init__(self, tag="inst"):
        self.tag = tag

    # instances are equal by key (here: all of them), like value objects
    def __eq__(self, other):
        return isinstance(other, Cls)

    def __ne__(self, other):
        return not isinstance(other, Cls)

    def __hash__(self):
        return 7

attr = ("orig", "attr")
obj = Cls("inst")
obj2 = Cls("inst2")
'''
    exec(compile(src, MODNAME + ".py", "exec"), m.__dict__)
    sys.modules[MODNAME] = m
    return m


class Other(object):
    def __init__(self, n):
        self.n = n

    def repl(self, *args, **kw):
        return ("repl", "bound", self.n, args, tuple(sorted(kw.items())))


class CallableObj(object):
    def __init__(self, n):
        self.n = n

    def __call__(self, *args, **kw):
        return ("repl", "callable", self.n, args, tuple(sorted(kw.items())))


class FalsyCallable(CallableObj):
    """A callable replacement that is falsy (e.g. a call recorder derived from list, still empty)."""

    def __len__(self):
        return 0


class RaisingCallable(object):
    def __init__(self, n):
        self.n = n

    def __call__(self, *args, **kw):
        raise SimError("repl-raises:%s" % (self.n,))


class FutureReturning(object):
    """A replacement whose result happens to be an asynq future object (a legal return value)."""

    def __init__(self, n):
        self.n = n

    def __call__(self, *args, **kw):
        return A.ConstFuture(("inner", self.n, args))


class C19(object):
    id = "C19"

    def shrink_budget(self, tier):
        return (300, 25.0)

    def gen(self, rng, tier, k):
        serial = [0]

        def ops(depth):
            out = []
            for _ in range(rng.randint(1, 4 if depth == 0 else 3)):
                r = rng.random()
                if r < 0.3 and depth < 3:
                    serial[0] += 1
                    out.append([rng.choice(["with", "with", "deco"]), rng.choice(TARGETS), rng.choice(REPLS), serial[0],
                                ops(depth + 1), rng.random() < 0.3])
                elif r < 0.42:
                    serial[0] += 1
                    out.append(["start", rng.choice(TARGETS), rng.choice(REPLS), serial[0]])
                elif r < 0.5:
                    out.append(["stop"])
                elif r < 0.55:
                    out.append(["stopall"])
                else:
                    out.append(["call", rng.choice(TARGETS), rng.choice(["sync", "value", "yield", "asyncio"]),
                                rng.randint(0, 9), rng.choice([None, 0, 5])])
            return out
        top = ops(0)
        if rng.random() < 0.2:
            # several started patches (often of the same target) ended together by stopall()
            t = rng.choice(TARGETS)
            motif = []
            for _ in range(rng.randint(2, 3)):
                serial[0] += 1
                motif.append(["start", t if rng.random() < 0.7 else rng.choice(TARGETS), rng.choice(REPLS), serial[0]])
                if rng.random() < 0.5:
                    motif.append(["call", t, rng.choice(["sync", "value", "yield", "asyncio"]), rng.randint(0, 9), None])
            motif.append(["stopall"])
            top = motif + top if rng.random() < 0.5 else top + motif
        case = {"ops": top, "style": rng.choice(["patch", "patch.object"]), "prio": gen.gen_prio(rng, 2)}

        def post(ops, salt):
            for i, op in enumerate(ops):
                d = zlib.crc32(repr((salt, i, op[:4])).encode())
                if op[0] in ("with", "deco", "start"):
                    if op[2] == "callable" and d % 3 == 0:
                        op[2] = "callable_raising"   # a replacement that raises
                    elif op[2] == "callable" and d % 3 == 1:
                        op[2] = "callable_falsy"     # a replacement object that is falsy
                    elif op[2] == "default" and d % 3 == 0:
                        op[2] = "default_raising"    # a default mock with a raising side_effect
                    if op[0] != "start":
                        post(op[4], d)
                        if op[1] == "meth" and d % 2 == 0:
                            # the patched method is called through two instances that compare equal
                            op[4][:0] = [["call", "meth", "sync", 0, None], ["call", "meth", "sync", 2, None],
                                         ["call", "meth", "value", 2, None]]
                elif op[0] == "call" and op[2] in ("yield", "asyncio") and d % 4 == 0:
                    # the yielding task is itself driven through .asyncio()
                    op[2] = "yield_in_asyncio"
        post(case["ops"], 0)
        dg = zlib.crc32(repr(case["ops"]).encode())
        if dg % 8 == 0:
            case["ops"].insert((dg // 8) % (len(case["ops"]) + 1), ["reuse", TARGETS[(dg // 64) % 4], 900 + dg % 50])
        return case

    def sample(self, case, r):
        return case

    def run(self, case, build):
        real.reset_world()
        spec = {"templates": [{"kind": "fn", "steps": []}], "root": {"tmpl": 0}, "kinds": 2, "svs": 1,
                "faults": {}, "prio": case.get("prio", {})}
        B = real.RealBackend(spec, ())
        B.setup()
        M = build_module()
        out = []
        probes = {}
        originals = {"fn": M.__dict__["fn"], "meth": M.Cls.__dict__["meth"], "cmeth": M.Cls.__dict__["cmeth"],
                     "smeth": M.Cls.__dict__["smeth"], "attr": M.__dict__["attr"]}
        stacks = {t: [] for t in TARGETS}  # model: installed (repl kind, serial, object or None)
        started = []  # (patcher, target)
        nitem = [0]

        def current(t):
            if t in ("fn", "attr"):
                return M.__dict__[t]
            return M.Cls.__dict__[t]

        shared_obj = CallableObj("shared")

        def make_patcher(t, kind, serial):
            kw = {}
            args = []
            if kind == "callable_shared":
                # one caller-supplied replacement object used by several (possibly overlapping) patches
                args = [shared_obj]
            if kind == "function":
                if t == "meth":
                    def new(self, a, b=0):
                        return ("repl", "function", serial, (self.tag, a, b))
                elif t == "cmeth":
                    def new(cls, a, b=0):
                        return ("repl", "function", serial, (cls.__name__, a, b))
                    new = classmethod(new)
                elif t == "smeth":
                    def new(a, b=0):
                        return ("repl", "function", serial, (a, b))
                    new = staticmethod(new)
                else:
                    def new(a, b=0):
                        return ("repl", "function", serial, (a, b))
                args = [new]
            elif kind == "bound":
                args = [Other(serial).repl]
            elif kind == "callable":
                args = [CallableObj(serial)]
            elif kind == "callable_raising":
                args = [RaisingCallable(serial)]
            elif kind == "callable_falsy":
                args = [FalsyCallable(serial)]
            elif kind == "returns_future":
                args = [FutureReturning(serial)]
            elif kind == "new_callable":
                kw["new_callable"] = lambda: CallableObj(serial)
            elif kind == "noncallable":
                args = [("noncallable", serial)]
            if case.get("style") == "patch.object":
                owner = M if t in ("fn", "attr") else M.Cls
                return amock.patch.object(owner, t, *args, **kw)
            name = "%s.%s" % (MODNAME, t) if t in ("fn", "attr") else "%s.Cls.%s" % (MODNAME, t)
            return amock.patch(name, *args, **kw)

        def inst_tag(a, b):
            # methods are looked up on one of two instances that compare equal
            return "inst2" if (a + (b or 0)) % 3 == 2 else "inst"

        def expect_call(t, a, b):
            """What calling target t with (a[, b]) must return under the model."""
            st = stacks[t]
            bb = 0 if b is None else b
            if not st:
                if t == "fn":
                    return ("V", ("orig", "fn", a, bb))
                if t == "meth":
                    return ("V", ("orig", "meth", inst_tag(a, b), a, bb))
                if t == "cmeth":
                    return ("V", ("orig", "cmeth", "Cls", a, bb))
                if t == "smeth":
                    return ("V", ("orig", "smeth", a, bb))
                return ("N", None)
            kind, serial, obj = st[-1]
            pos = (a,) if b is None else (a, b)
            if kind == "default":
                return ("M", obj)
            if kind == "default_raising":
                return ("E", "side-effect:%s" % serial)
            if kind == "callable_raising":
                return ("E", "repl-raises:%s" % serial)
            if kind == "function":
                if t == "meth":
                    return ("V", ("repl", "function", serial, (inst_tag(a, b), a, bb)))
                if t == "cmeth":
                    return ("V", ("repl", "function", serial, ("Cls", a, bb)))
                return ("V", ("repl", "function", serial, (a, bb)))
            if kind == "bound":
                return ("V", ("repl", "bound", serial, pos, ()))
            if kind == "callable_shared":
                return ("V", ("repl", "callable", "shared", pos, ()))
            if kind == "returns_future":
                return ("F", ("inner", serial, pos))
            if kind in ("callable", "new_callable", "callable_falsy"):
                return ("V", ("repl", "callable", serial, pos, ()))
            return ("N", None)

        def do_call(t, conv, a, b):
            exp = expect_call(t, a, b)
            if exp[0] == "N" or t == "attr":
                # not callable: identity / value only
                cur = current(t)
                want = originals[t] if not stacks[t] else stacks[t][-1][2]
                if stacks[t] and stacks[t][-1][0] in ("default", "new_callable", "callable", "callable_shared", "returns_future", "bound", "function",
                                                      "default_raising", "callable_raising", "callable_falsy"):
                    return
                if want is not None and cur is not want and cur != want:
                    out.append(("installed", "target %s holds %r, the model says %r" % (t, cur, want)))
                return
            via_instance = t == "meth" or (t in ("smeth", "cmeth") and (a + (b or 0)) % 2 == 1)
            if via_instance and t != "meth":
                probes["static_or_class_method_via_instance"] = probes.get("static_or_class_method_via_instance", 0) + 1
            the_obj = M.obj2 if (t == "meth" and inst_tag(a, b) == "inst2") else M.obj
            if the_obj is M.obj2:
                probes["method_via_second_equal_instance"] = probes.get("method_via_second_equal_instance", 0) + 1
            tgt = M.fn if t == "fn" else getattr(the_obj if via_instance else M.Cls, t)
            if conv == "yield_in_asyncio" and t == "fn" and stacks[t] and stacks[t][-1][0] == "function":
                # (a plain-function replacement of a module function refuses to be called in
                # asyncio mode on the unchanged tree; the statement lists the conventions apart)
                conv = "asyncio"
            pos = (a,) if b is None else (a, b)
            probes["conv:" + conv] = probes.get("conv:" + conv, 0) + 1
            try:
                if conv == "sync":
                    got = tgt(*pos)
                elif conv == "value":
                    got = tgt.asynq(*pos).value()
                elif conv == "asyncio":
                    got = asyncio.run(tgt.asyncio(*pos))
                elif conv == "yield_in_asyncio":
                    # a task that yields target.asynq(...) and is itself driven through .asyncio()
                    @A.asynq()
                    def aio_caller():
                        return (yield tgt.asynq(*pos))
                    got = asyncio.run(aio_caller.asyncio())
                else:
                    @A.asynq()
                    def competitor(i):
                        nitem[0] += 1
                        return (yield real.SimItem(B.current[i % 2], "c.i%d" % nitem[0], "k", B))

                    @A.asynq()
                    def caller():
                        nitem[0] += 1
                        yield real.SimItem(B.current[0], "y.i%d" % nitem[0], "k", B)
                        return (yield tgt.asynq(*pos))

                    @A.asynq()
                    def root():
                        return (yield [caller.asynq(), competitor.asynq(0), competitor.asynq(1)])[0]
                    got = root()
            except HarnessError:
                raise
            except BaseException as e:
                got = ("EXC", type(e).__name__, str(e)[:100])
            if exp[0] == "E":
                if not (isinstance(got, tuple) and got[:2] == ("EXC", "SimError") and got[2] == exp[1]):
                    out.append(("reach-replacement", "%s via %s: the replacement raises %s; this convention gave %r" % (t, conv, exp[1], got)))
                return
            if exp[0] == "F":
                # every convention must deliver the very result of the replacement: a ConstFuture
                if not isinstance(got, A.ConstFuture) or got.value() != exp[1]:
                    out.append(("reach-replacement", "%s via %s: the replacement returns a future object %r; this convention delivered %r" % (
                        t, conv, exp[1], got.value() if isinstance(got, A.FutureBase) else got)))
                return
            if exp[0] == "M":
                m = exp[1]
                ok = got is m.return_value
                if ok:
                    ca = m.call_args
                    if ca is None or tuple(ca[0]) != pos:
                        out.append(("mock-args", "%s via %s: the mock recorded call %r, given arguments %r" % (t, conv, ca, pos)))
                        return
                else:
                    out.append(("reach-replacement", "%s via %s gave %r, not the default mock's return value" % (t, conv, got)))
                return
            if got != exp[1]:
                out.append(("reach-replacement", "%s via %s with %r gave %r, the model (patch stack %s) says %r"
                            % (t, conv, pos, got, [(k, s) for k, s, _ in stacks[t]], exp[1])))

        def check_installed(when):
            for t in TARGETS:
                cur = current(t)
                st = stacks[t]
                if not st:
                    if cur is not originals[t]:
                        out.append(("restored", "%s: target %s is %r, not the original object" % (when, t, cur)))
                        return
                else:
                    kind, serial, obj = st[-1]
                    if obj is not None and cur is not obj:
                        out.append(("restored", "%s: target %s is %r, the model says the object installed by patch #%d (%s)" % (when, t, cur, serial, kind)))
                        return

        def activate(p, t, kind, serial, how):
            if how == "start":
                obj = p.start()
            else:
                obj = p.__enter__()
            stacks[t].append((kind, serial, current(t)))
            if kind == "default_raising":
                obj.side_effect = SimError("side-effect:%s" % serial)
            if kind == "noncallable" and current(t) != ("noncallable", serial):
                out.append(("installed", "non-callable replacement for %s not installed as is: %r" % (t, current(t))))
            probes["repl:" + kind] = probes.get("repl:" + kind, 0) + 1
            probes["target:" + t] = probes.get("target:" + t, 0) + 1
            return obj

        def run_ops(ops):
            mark = len(started)
            for op in ops:
                if out:
                    return
                name = op[0]
                if name in ("with", "deco"):
                    _, t, kind, serial, body, exc = op
                    p = make_patcher(t, kind, serial)
                    if name == "with":
                        try:
                            with p as pobj:
                                if kind == "default_raising":
                                    pobj.side_effect = SimError("side-effect:%s" % serial)
                                stacks[t].append((kind, serial, current(t)))
                                probes["repl:" + kind] = probes.get("repl:" + kind, 0) + 1
                                probes["style:with"] = probes.get("style:with", 0) + 1
                                run_ops(body)
                                if exc:
                                    probes["exit:exception"] = probes.get("exit:exception", 0) + 1
                                    raise SimError("leave")
                        except SimError:
                            pass
                        stacks[t].pop()
                    else:
                        def fn(*margs):
                            if kind == "default_raising":
                                current(t).side_effect = SimError("side-effect:%s" % serial)
                            stacks[t].append((kind, serial, current(t)))
                            probes["repl:" + kind] = probes.get("repl:" + kind, 0) + 1
                            probes["style:decorator"] = probes.get("style:decorator", 0) + 1
                            run_ops(body)
                            if exc:
                                probes["exit:exception"] = probes.get("exit:exception", 0) + 1
                                raise SimError("leave")
                        try:
                            p(fn)()
                        except SimError:
                            pass
                        stacks[t].pop()
                    check_installed("after leaving %s-patch #%d of %s" % (name, serial, t))
                elif name == "start":
                    _, t, kind, serial = op
                    p = make_patcher(t, kind, serial)
                    activate(p, t, kind, serial, "start")
                    started.append((p, t))
                    probes["style:start"] = probes.get("style:start", 0) + 1
                elif name == "stop":
                    if len(started) > mark:
                        p, t = started.pop()
                        p.stop()
                        stacks[t].pop()
                        probes["exit:stop"] = probes.get("exit:stop", 0) + 1
                        check_installed("after stop() of a patch of %s" % t)
                elif name == "stopall":
                    if len(started) > mark and mark == 0:
                        amock.patch.stopall()
                        while started:
                            p, t = started.pop()
                            stacks[t].pop()
                        probes["exit:stopall"] = probes.get("exit:stopall", 0) + 1
                        check_installed("after stopall()")
                elif name == "reuse":
                    # one patcher object activated repeatedly (a decorated function called again,
                    # a with-block in a loop), the second time inside an enclosing patch that has
                    # put the very same replacement object on the target
                    t = op[1]
                    serial = op[2]
                    P = make_patcher(t, "callable_shared", serial)
                    Q = make_patcher(t, "callable_shared", serial)
                    probes["patcher_reused"] = probes.get("patcher_reused", 0) + 1
                    with P:
                        stacks[t].append(("callable_shared", serial, current(t)))
                        do_call(t, "sync", 1, None)
                    stacks[t].pop()
                    check_installed("after the first activation of a reused patcher of %s" % t)
                    with Q:
                        stacks[t].append(("callable_shared", serial, current(t)))
                        with P:
                            stacks[t].append(("callable_shared", serial, current(t)))
                            do_call(t, "value", 2, None)
                        stacks[t].pop()
                        check_installed("after the second activation of a reused patcher of %s, inside an enclosing patch" % t)
                        if not out:
                            do_call(t, "sync", 3, None)
                    stacks[t].pop()
                    check_installed("after the enclosing patch of %s" % t)
                elif name == "call":
                    do_call(op[1], op[2], op[3], op[4])
            # keep activations LIFO: patches started inside this block end before it is left
            while len(started) > mark:
                p, t = started.pop()
                p.stop()
                stacks[t].pop()

        try:
            run_ops(case.get("ops", []))
            if not out:
                check_installed("at the end")
        except HarnessError:
            raise
        except BaseException as e:
            out.append(("unexpected", "history raised %s: %s" % (type(e).__name__, str(e)[:200])))
        try:
            umock.patch.stopall()
        except Exception:
            pass
        sys.modules.pop(MODNAME, None)
        B.teardown()
        real.reset_world()
        sig = repr(case.get("ops")) + case.get("style", "")
        return {"violations": out[:3], "stats": {"events": len(B.trace), "flushes": len(B.flushes), "probes": probes},
                "sig": sig, "nontrivial": any(k.startswith("repl:") for k in probes) and any(k.startswith("conv:") for k in probes),
                "digest": sig + "|" + repr(sorted(probes.items())) + repr([(f["kind"], f["tokens"]) for f in B.flushes])}


PROP = C19()
