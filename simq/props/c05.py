from ._prog import ProgProp


class C05(ProgProp):
    id = "C05"
    report = ("C05", "C01")  # "...and that is what the waiting task receives"
    cross_check = False
    cfg = {"p_sync": 0.08, "p_try": 0.1, "p_fault": 0.05, "max_kinds": 4, "item_faults": 0.06, "flush_faults": 0.12,
           "p_item": 0.55, "base_exc": 0.3, "p_item_value_sync": 0.15, "flush_reenter": 0.25, "flush_cancels": 0.3, "p_item_eq": 0.2}

    def tune(self, rng, cfg, tier):
        if rng.random() < 0.6:
            cfg["p_sync"] = 0.0  # yield-only: the priority rule applies
            cfg["kinds"] = rng.randint(2, 4)
        return cfg


    def gen(self, rng, tier, k):
        if k % 16 == 1:
            from .. import gen as g
            return self.motif_case(rng, tier, g.motif_out_of_band_flush(rng))
        if k % 16 == 9:
            from .. import gen as g
            spec = g.motif_cancel_scheduled(rng)
            spec["keep_prio"] = True
            return self.motif_case(rng, tier, spec)
        return ProgProp.gen(self, rng, tier, k)

    def post_spec(self, rng, spec, cfg, tier):
        import json
        import zlib
        # one program in five keeps the dependencies of flushed batches (a debug option): a batch
        # flushed by item.value() inside a task then still holds its items while it is scheduled
        dg = zlib.crc32(json.dumps(spec["templates"], sort_keys=True).encode())
        if dg % 5 == 0:
            spec["options"] = {"KEEP_DEPENDENCIES": True}
        if (dg // 5) % 10 == 0:
            spec["faults"]["before_hook_cancels"] = 1 + (dg // 50) % 3
            spec["ctx_fault"] = True  # (the computation ends with asynq's BatchingError: no value oracle)


PROP = C05()
