"""C20: debug / dump / profiling options are inert. Differential program simulation: the same
spec + faults + priorities is run under default options and under a seeded option subset, with
the simulated clock feeding utime()/time.time() increments from microseconds to hours."""
import copy

from ._prog import ProgProp
import json
import random
import zlib

from .. import gen, progsim, real, prog


class C20(ProgProp):
    id = "C20"
    report = ("C20",)
    cfg = {"p_sync": 0.12, "p_try": 0.1, "p_ctx": 0.08, "p_sv": 0.05, "p_fault": 0.12, "item_faults": 0.05,
           "flush_faults": 0.06, "p_timer": 0.05, "p_item_value_sync": 0.5, "max_kinds": 3, "p_item_eq": 0.3}

    def base_cfg(self, tier):
        cfg = ProgProp.base_cfg(self, tier)
        if tier == "thorough":
            # with every DUMP_* option on the diagnostic output grows quadratically with the
            # program (each step dumps the whole scheduler): keep one case within seconds
            cfg["max_instances"] = 400
        return cfg

    def _guard_motif(self, rng):
        """The runaway guard trips while a batch that was flushed synchronously (item.value()
        inside a task) is still registered with the scheduler; user priorities look at their
        batch's first request. The pre-error dump must not change what the program sees."""
        kinds = rng.randint(1, 2)
        depth = rng.randint(3, 7)

        def item():
            return ["item", rng.randint(0, kinds - 1), rng.randint(0, 4)]
        waiter = {"kind": "fn", "steps": [["y", item()] for _ in range(rng.randint(1, 2))]}
        flusher_steps = [["s", item(), "value"], ["y", ["call", 3, []]]]
        if rng.random() < 0.5:
            flusher_steps.insert(0, ["y", item()])
        if rng.random() < 0.4:
            flusher_steps = [["try", flusher_steps, "all", [["y", item()]]]]
        flusher = {"kind": "fn", "steps": flusher_steps}
        templates = [None, waiter, flusher]
        for d in range(depth):
            nxt = ["call", 4 + d, []] if d < depth - 1 else item()
            templates.append({"kind": "fn", "steps": [["y", nxt]]})
        calls = [["call", 1, []], ["call", 2, []]]
        if rng.random() < 0.5:
            calls.append(["call", 1, []])
        rng.shuffle(calls)
        root = [["y", [rng.choice(["t", "l"]), calls]]]
        if rng.random() < 0.4:
            root = [["try", root, "all", [["y", item()]]]]
        templates[0] = {"kind": "fn", "steps": root}
        return {"templates": templates, "root": {"tmpl": 0, "conv": rng.choice(["call", "value", "wrapped"])},
                "kinds": kinds, "svs": 1, "yield_only": False, "reentry": True,
                "faults": {"items": {}, "flushes": {}, "ctx": {}}, "prio": gen.gen_prio(rng, kinds),
                "prio_nonempty": True, "max_stack": rng.randint(3, depth + 2)}

    def _ties_motif(self, rng):
        """Several pending batches of equal priority (the choice among them is the set's
        iteration order, i.e. the seeded hashes) - with profiling on."""
        kinds = rng.randint(2, 3)

        def leaf():
            return {"kind": "fn", "steps": [["y", ["item", None, rng.randint(0, 4)]] for _ in range(rng.randint(1, 2))]}
        templates = [None] + [leaf() for _ in range(kinds)]
        for i in range(kinds):
            for st in templates[1 + i]["steps"]:
                st[1][1] = (i + (0 if st is templates[1 + i]["steps"][0] else rng.randint(0, kinds - 1))) % kinds
        calls = [["call", 1 + i, []] for i in range(kinds)]
        rng.shuffle(calls)
        templates[0] = {"kind": "fn", "steps": [["y", [rng.choice(["t", "l"]), calls]]]}
        return {"templates": templates, "root": {"tmpl": 0, "conv": rng.choice(["call", "value", "wrapped"])},
                "kinds": kinds, "svs": 1, "yield_only": True, "reentry": False,
                "faults": {"items": {}, "flushes": {}, "ctx": {}},
                "prio": {"policy": rng.choice(["default", "const"]), "vals": {str(i): 1 for i in range(kinds)},
                         "hashes": {"order": [rng.randint(0, 7) for _ in range(5)]}}}

    def gen(self, rng, tier, k):
        if k % 8 == 3:
            which = rng.choice(["ties", "oob_flush_dump", "oob_state_dump"])
            clock = {"seed": rng.randint(0, 10 ** 6), "mode": rng.choice(["small", "mixed", "huge"])}
            if which == "ties":
                return {"spec": self._ties_motif(rng), "options": {"COLLECT_PERF_STATS": True}, "clock": clock, "dump_interval": 1}
            spec = gen.motif_out_of_band_flush(rng)
            spec.pop("options", None)
            if which == "oob_flush_dump":
                return {"spec": spec, "options": {"DUMP_FLUSH_BATCH": True}, "clock": clock, "dump_interval": 1}
            spec["prio_nonempty"] = True
            return {"spec": spec, "options": {"DUMP_SCHEDULER_STATE": True}, "clock": {"seed": clock["seed"], "mode": "huge"}, "dump_interval": 0}
        if k % 16 == 5:
            spec = self._guard_motif(rng)
            options = {"DUMP_PRE_ERROR_STATE": not real.DEFAULT_OPTIONS["DUMP_PRE_ERROR_STATE"]}
            for o in real.BOOL_OPTIONS:
                if rng.random() < 0.15:
                    options[o] = not real.DEFAULT_OPTIONS[o]
            return {"spec": spec, "options": options, "clock": {"seed": rng.randint(0, 10 ** 6), "mode": rng.choice(["small", "mixed", "huge"])},
                    "dump_interval": rng.choice([0, 1, 3600])}
        cfg = gen.swarm(rng, self.base_cfg(tier))
        spec = gen.gen_program(rng, cfg)
        r = rng.random()
        opts = real.BOOL_OPTIONS
        if r < 0.3:
            on = [rng.choice(opts)]
        elif r < 0.4:
            on = list(opts)
        elif r < 0.5:
            on = [o for o in opts if o.startswith("DUMP_")]
        else:
            on = [o for o in opts if rng.random() < 0.35]
        options = {}
        for o in on:
            # "on" flips the option relative to its default
            options[o] = not real.DEFAULT_OPTIONS[o]
        if rng.random() < 0.3:
            # one kind is served by asynq's own DebugBatch (no harness subclass at all); constant
            # per-kind priorities above the default's (0, n) keep the flush order hash-independent
            spec["native_debug_kinds"] = [rng.randint(0, spec["kinds"] - 1)]
            spec["debug_kinds"] = [k for k in spec.get("debug_kinds", []) if k not in spec["native_debug_kinds"]]
            spec["prio"] = {"policy": "const", "vals": {str(k): k for k in range(spec["kinds"])}, "hashes": {}}
            for key in [x for x in spec["faults"]["items"] if int(x.split(":")[0]) in spec["native_debug_kinds"]]:
                del spec["faults"]["items"][key]
            for key in [x for x in spec["faults"]["flushes"] if int(x.split("#")[0]) in spec["native_debug_kinds"]]:
                del spec["faults"]["flushes"][key]
        if rng.random() < 0.3:
            spec["prio_nonempty"] = True
        if rng.random() < 0.08:
            # the runaway guard trips (same RuntimeError whatever the options)
            spec["max_stack"] = rng.randint(2, 6)
        if rng.random() < 0.15:
            spec["faults"].setdefault("ctx", {})["#%d" % rng.randint(1, 4)] = ["resume", rng.randint(2, 3)]
        clock = {"seed": rng.randint(0, 10 ** 6), "mode": rng.choice(["small", "mixed", "huge", "huge"])}
        case = {"spec": spec, "options": options, "clock": clock,
                "dump_interval": rng.choice([0, 1, 1, 3600])}
        # the rest is decided by a digest of the case (explicit keys; the generator's random
        # stream is the same as before these dimensions existed)
        d = zlib.crc32(json.dumps(case, sort_keys=True).encode())
        extra = [None, "COLLECT_PERF_STATS", "DUMP_FLUSH_BATCH", "KEEP_DEPENDENCIES", "DUMP_SCHEDULER_STATE", None][d % 6]
        if extra is not None:
            options[extra] = not real.DEFAULT_OPTIONS[extra]
        if (d // 6) % 5 == 0 and spec["templates"]:
            # the option set is switched on by user code in the middle of a task step, not before
            t = (d // 30) % len(spec["templates"])
            case["toggle_at"] = [t, (d // 300) % (len(spec["templates"][t]["steps"]) + 1)]
        if (d // 7) % 7 == 0:
            # a completion callback raises a BaseException (the computation is abandoned mid-way)
            spec["faults"]["callbacks"] = {"#%d" % (1 + (d // 49) % 6): "base"}
        if (d // 11) % 3 == 0:
            # a second computation on the same scheduler afterwards (options still as they are)
            from .c08 import _canary
            case["canary"] = _canary(random.Random(d))
        return case

    def sample(self, case, r):
        s = ProgProp.sample(self, {"spec": case["spec"], "variants": []}, r)
        s["options"] = case["options"]
        s["clock"] = case["clock"]
        return s

    def _after(self, case, B, options):
        """The canary computation on the scheduler the main computation has just used."""
        c1 = copy.deepcopy(case["canary"])
        c1["fresh_scheduler"] = False
        c1["clock"] = case["clock"]
        if options:
            c1["options"] = options
            c1["dump_interval"] = case.get("dump_interval", 1)
        Bc = real.RealBackend(c1, ())
        Bc.carried = B.current
        oc = Bc.run()
        if isinstance(oc[1], prog.HarnessError):
            raise oc[1]
        res = (("V", repr(oc[1])) if oc[0] == "V" else ("E", prog.errtok(oc[1])), list(Bc.trace))
        Bc.cancel_stale_batches()
        return res

    def run(self, case, build):
        spec = case["spec"]
        base = copy.deepcopy(spec)
        base["clock"] = case["clock"]
        r0 = progsim.execute(base, (), check_values=False)
        t0 = r0["trace"]
        c0 = self._after(case, r0["B"], None) if case.get("canary") else None
        alt = copy.deepcopy(spec)
        alt["clock"] = case["clock"]
        tog = case.get("toggle_at")
        if tog and case["options"] and tog[0] < len(alt["templates"]):
            steps = alt["templates"][tog[0]]["steps"]
            for o in sorted(case["options"]):
                steps.insert(min(tog[1], len(steps)), ["opt", o, case["options"][o]])
        else:
            alt["options"] = case["options"]
        alt["dump_interval"] = case.get("dump_interval", 1)
        r1 = progsim.execute(alt, (), check_values=False)
        t1 = [e for e in r1["trace"] if e[0] != "option"]
        if case["options"].get("KEEP_DEPENDENCIES"):
            # keeping dependencies means keeping references: when the generator of an abandoned
            # (never completed) task is finalised is a matter of object lifetime, not of behaviour
            t0 = [e for e in t0 if e[0] != "closed"]
            t1 = [e for e in t1 if e[0] != "closed"]
        c1 = self._after(case, r1["B"], case["options"]) if case.get("canary") else None
        out = []
        if c0 is not None and case["options"].get("KEEP_DEPENDENCIES"):
            c0 = (c0[0], [e for e in c0[1] if e[0] != "closed"])
            c1 = (c1[0], [e for e in c1[1] if e[0] != "closed"])
        if c0 is not None and c0 != c1:
            if c0[0] != c1[0]:
                out.append(("outcome", "with options %s the next computation on the same scheduler gives %r, with defaults %r" % (sorted(case["options"]), c1[0], c0[0])))
            else:
                i = next((j for j in range(min(len(c0[1]), len(c1[1]))) if c0[1][j] != c1[1][j]), min(len(c0[1]), len(c1[1])))
                out.append(("trace", "with options %s event #%d of the next computation on the same scheduler is %r, with defaults %r" % (
                    sorted(case["options"]), i, c1[1][i] if i < len(c1[1]) else None, c0[1][i] if i < len(c0[1]) else None)))
        if out:
            pass
        elif r0["outcome"] != r1["outcome"]:
            out.append(("outcome", "with options %s the computation gives %r, with defaults %r"
                        % (sorted(case["options"]), r1["outcome"], r0["outcome"])))
        elif t0 != t1:
            i = next((j for j in range(min(len(t0), len(t1))) if t0[j] != t1[j]), min(len(t0), len(t1)))
            out.append(("trace", "with options %s event #%d is %r, with defaults %r" % (
                sorted(case["options"]), i, t1[i] if i < len(t1) else None, t0[i] if i < len(t0) else None)))
        stats = r1["stats"]
        stats["runs"] = 2
        stats["probes"]["options_on"] = len(case["options"])
        stats["probes"]["diag_writes"] = r1["stats"]["diag_writes"]
        stats["probes"]["clock_max_increment_ge_2^31us"] = 1 if real.simenv.clock.maxinc >= 2 ** 31 else 0
        for o in case["options"]:
            stats["probes"]["opt:" + o] = 1
        return {"violations": out, "stats": stats, "sigs": [r1["digest"] + ":" + ",".join(sorted(case["options"]))],
                "nontrivial": r1["stats"]["flushes"] >= 1 and bool(case["options"]), "digest": r0["digest"] + "/" + r1["digest"],
                "outcome": r1["outcome"]}


PROP = C20()
