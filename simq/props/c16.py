"""C16: computations on different threads never interfere.

2-8 (thorough: up to 16) real threads each run their own seeded program (DebugBatchItem kinds, a
process-wide @deduplicate() function, COLLECT_PERF_STATS + profiler, contexts, re-entry) under a
baton controller: at every sys.settrace line event in harness or asynq source the seeded
controller may park the running thread and release another, so the choice of who runs is never
the operating system's.  Oracle: each thread's outcome, canonical event trace and profiler record
count equal those of the same program run alone."""
import copy
import gc
import hashlib
import json
import zlib
import os
import random
import sys
import threading

from .. import real, gen, prog
from ..prog import HarnessError, errtok

A = real.A
HERE = os.path.dirname(os.path.dirname(os.path.abspath(__file__)))
ASYNQ_DIR = os.path.dirname(os.path.abspath(A.__file__))


class Baton(object):
    """Parks / releases real threads one at a time at intercepted line events."""

    def __init__(self, seed, names, p_switch):
        self.rng = random.Random(seed)
        self.p = p_switch
        self.sems = {n: threading.Semaphore(0) for n in names}
        self.alive = set(names)
        self.done = threading.Semaphore(0)
        self.points = 0
        self.switches = 0
        self.in_asynq = 0
        self.lock_owner = None

    def _traced(self, filename):
        return filename.startswith(HERE) or filename.startswith(ASYNQ_DIR)

    def global_trace(self, frame, event, arg):
        fn = frame.f_code.co_filename
        if fn.endswith("c16.py") or fn.endswith("threading.py"):
            return None
        if self._traced(fn):
            return self.local_trace
        return None

    def local_trace(self, frame, event, arg):
        if event == "line":
            self.points += 1
            if frame.f_code.co_filename.startswith(ASYNQ_DIR):
                self.in_asynq += 1
            if self.rng.random() < self.p:
                self.switch(threading.current_thread().sim_id)
        return self.local_trace

    def switch(self, me):
        cands = sorted(self.alive)
        if len(cands) <= 1:
            return
        nxt = cands[self.rng.randrange(len(cands))]
        if nxt == me:
            return
        self.switches += 1
        self.sems[nxt].release()
        self.sems[me].acquire()

    def finish(self, me):
        self.alive.discard(me)
        cands = sorted(self.alive)
        if cands:
            self.sems[cands[self.rng.randrange(len(cands))]].release()
        else:
            self.done.release()


def _run_aio(result, name, n_yields):
    """A thread that spends its life inside fn.asyncio() on its own event loop, suspended at
    `await asyncio.sleep(0)` points: other threads' ordinary computations must not notice."""
    import asyncio

    @A.asynq()
    def leaf(i):
        return i

    @A.asynq()
    def fn():
        tot = 0
        for i in range(n_yields):
            tot += (yield leaf.asynq(i))
        return tot

    async def main():
        acc = 0
        for _ in range(3):
            acc += await fn.asyncio()
            await asyncio.sleep(0)
        return acc
    loop = asyncio.new_event_loop()
    try:
        result["out"] = ("V", repr(loop.run_until_complete(main())))
    except BaseException as e:
        result["out"] = ("X", "%s: %s" % (type(e).__name__, str(e)[:200]))
    finally:
        loop.close()
    result["trace"] = []
    result["perf"] = len(A.profiler.flush())
    result["sched"] = A.scheduler.get_scheduler()  # kept alive: identities stay comparable
    result["viol"] = []
    result["dd_foreign"] = []


def _run_program(spec, result, name):
    if spec.get("aio_thread"):
        return _run_aio(result, name, int(spec.get("n_yields", 3)))
    B = real.RealBackend(spec, ("C08",))
    try:
        o = B.run()
        result["out"] = ("V", repr(o[1])) if o[0] == "V" else ("E", errtok(o[1]))
        if isinstance(o[1], HarnessError):
            result["harness"] = repr(o[1])
    except BaseException as e:
        result["out"] = ("X", "%s: %s" % (type(e).__name__, str(e)[:200]))
    result["B"] = B
    result["trace"] = B.canon_trace()
    result["perf"] = len(A.profiler.flush())
    result["sched"] = A.scheduler.get_scheduler()  # kept alive: identities stay comparable
    result["viol"] = [(c, m) for (p, c, m, n) in B.violations]
    result["dd_foreign"] = [real.DD_OWNER.get(id(t)) for t in B.dd_tasks if real.DD_OWNER.get(id(t)) not in (None, name)]


class C16(object):
    id = "C16"
    cfg = {"p_sync": 0.1, "p_try": 0.08, "p_ctx": 0.12, "p_sv": 0.06, "p_fault": 0.08, "item_faults": 0.04, "p_dd": 0.2,
           "max_templates": 5, "max_steps": 3, "max_kinds": 3, "p_debug_kinds": 0.6, "p_item": 0.45, "p_call": 0.4}

    def shrink_budget(self, tier):
        return (120, 40.0)

    def _dd_heavy(self, rng, tier):
        """Every thread keeps calling the process-wide deduplicated function (its table is the one
        piece of state all threads share), with requests in flight, under frequent pre-emption."""
        n = rng.randint(3, 6 if tier == "quick" else 12)
        progs = []
        for _ in range(n):
            steps = []
            for _ in range(rng.randint(2, 4)):
                leaves = [["dd", rng.randint(0, 5)] for _ in range(rng.randint(1, 3))]
                if rng.random() < 0.4:
                    leaves.append(["item", 0, rng.randint(0, 3)])
                steps.append(["y", [rng.choice(["t", "l"]), leaves]])
            progs.append({"templates": [{"kind": "fn", "steps": steps}], "root": {"tmpl": 0, "conv": rng.choice(["call", "value"])},
                          "kinds": 2, "svs": 1, "yield_only": True, "reentry": False, "threaded": True, "debug_kinds": [0, 1],
                          "faults": {"items": {}, "flushes": {}, "ctx": {}}, "prio": gen.gen_prio(rng, 2)})
        return {"programs": progs, "seed": rng.randint(0, 10 ** 9), "p_switch": rng.choice([0.05, 0.2, 0.2, 0.5]),
                "perf": rng.random() < 0.3, "same_thread_names": rng.random() < 0.3}

    def gen(self, rng, tier, k):
        if k % 5 == 2:
            return self._dd_heavy(rng, tier)
        n = rng.randint(2, 6 if tier == "quick" else 16)
        progs = []
        for _ in range(n):
            cfg = gen.swarm(rng, self.cfg)
            spec = gen.gen_program(rng, cfg)
            spec["threaded"] = True
            # (decided by a digest of the program, so that the generator's stream is unchanged)
            d = zlib.crc32(json.dumps(spec, sort_keys=True).encode())
            if d % 5 == 0:
                spec["handover"] = True
                spec["root"]["conv"] = "value"
            if (d // 125) % 3 == 0:
                spec["stack_probe"] = True  # every task asks debug.format_asynq_stack() when it starts
            if (d // 5) % 5 == 0:
                # user code inside the scheduler loop raises: the computation is given up with
                # whatever it had in flight (e.g. a suspended deduplicated call) left behind
                spec.setdefault("faults", {})["prio_raises"] = 1 + (d // 25) % 3
            progs.append(spec)
        if rng.random() < 0.3:
            progs.insert(rng.randint(0, len(progs)), {"aio_thread": True, "n_yields": rng.randint(1, 4), "templates": []})
        case = {"programs": progs, "seed": rng.randint(0, 10 ** 9), "p_switch": rng.choice([0.002, 0.01, 0.05, 0.2]),
                "perf": rng.random() < 0.5, "same_thread_names": rng.random() < 0.3}
        case["ctx_threads"] = case["seed"] % 3 == 0
        return case

    def sample(self, case, r):
        return {"threads": len(case["programs"]), "p_switch": case["p_switch"], "perf": case["perf"],
                "first_program": case["programs"][0].get("templates", [])[:2], "switches": r.get("switches"),
                "same_thread_names": case.get("same_thread_names"), "asyncio_thread": any(p.get("aio_thread") for p in case["programs"])}

    def run(self, case, build):
        real.reset_world()
        real.DD_OWNER.clear()
        opts = real._adebug.options
        opts.COLLECT_PERF_STATS = bool(case.get("perf"))
        real.simenv.clock.configure({"seed": 1, "mode": "small"})
        progs = case.get("programs", [])
        names = ["T%d" % i for i in range(len(progs))]  # harness ids
        # the threads' *names* may all be the same (thread names are not unique identifiers)
        tnames = ["worker"] * len(progs) if case.get("same_thread_names") else names
        out = []
        gc_was = gc.isenabled()
        gc.disable()
        try:
            # 1. every program alone (own fresh thread, no tracing)
            solo = []
            for name, spec in zip(names, progs):
                res = {}
                t = threading.Thread(target=_run_program, args=(copy.deepcopy(spec), res, name), name=tnames[names.index(name)])
                t.sim_id = name
                t.start()
                t.join()
                if "harness" in res:
                    raise HarnessError(res["harness"])
                solo.append(res)
                # threads that run one after another (thread identifiers are recycled) must not
                # inherit anything from their predecessors either
                if res.get("dd_foreign"):
                    out.append(("dedup-scope", "thread %s, started after the others had ended, received a deduplicated task whose body ran on %s" % (name, res["dd_foreign"])))
                if spec.get("handover"):
                    act = [m for (ck, m) in res.get("viol", []) if ck.startswith("active")]
                    if act:
                        out.append(("active-task", "thread %s evaluating a task built on another thread: %s" % (name, act[0])))
            real._tools.DeduplicateDecorator.tasks.clear()
            real.DD_OWNER.clear()
            # 2. all programs concurrently under the baton
            baton = Baton(case.get("seed", 0), names, float(case.get("p_switch", 0.01)))
            conc = [dict() for _ in progs]

            def body(i):
                me = names[i]
                baton.sems[me].acquire()
                sys.settrace(baton.global_trace)
                try:
                    _run_program(copy.deepcopy(progs[i]), conc[i], me)
                finally:
                    sys.settrace(None)
                    baton.finish(me)
            if case.get("ctx_threads"):
                # workers started the way asyncio.to_thread / executors with context propagation
                # start them: each inside a copy of the parent's contextvars context
                import contextvars
                threads = [threading.Thread(target=contextvars.copy_context().run, args=(body, i), name=tnames[i]) for i in range(len(progs))]
            else:
                threads = [threading.Thread(target=body, args=(i,), name=tnames[i]) for i in range(len(progs))]
            for i, t in enumerate(threads):
                t.sim_id = names[i]
            for t in threads:
                t.start()
            if threads:
                first = sorted(names)[baton.rng.randrange(len(names))]
                baton.sems[first].release()
                baton.done.acquire()
            for t in threads:
                t.join()
        finally:
            if gc_was:
                gc.enable()
        scheds = [id(c.get("sched")) for c in conc if c.get("sched") is not None]
        if len(set(scheds)) != len(scheds):
            out.append(("own-scheduler", "two threads observed the same scheduler object"))
        for i, (s, c) in enumerate(zip(solo, conc)):
            if out:
                break
            if "harness" in c:
                raise HarnessError(c["harness"])
            if c.get("dd_foreign"):
                out.append(("dedup-scope", "thread %s received a deduplicated task whose body ran on %s" % (names[i], c["dd_foreign"])))
                break
            if c.get("out") != s.get("out"):
                out.append(("outcome", "thread %s: outcome %r while other threads run, %r alone" % (names[i], c.get("out"), s.get("out"))))
                break
            act = [m for (ck, m) in c.get("viol", []) if ck.startswith("active")]
            if act and not [m for (ck, m) in s.get("viol", []) if ck.startswith("active")]:
                out.append(("active-task", "thread %s: %s" % (names[i], act[0])))
                break
            t0, t1 = s.get("trace", []), c.get("trace", [])
            if t0 != t1:
                j = next((x for x in range(min(len(t0), len(t1))) if t0[x] != t1[x]), min(len(t0), len(t1)))
                out.append(("trace", "thread %s: event #%d is %r while other threads run, %r alone" % (
                    names[i], j, t1[j] if j < len(t1) else None, t0[j] if j < len(t0) else None)))
                break
            if c.get("perf") != s.get("perf"):
                out.append(("profiler", "thread %s: profiler buffer holds %d records, %d when run alone" % (names[i], c.get("perf"), s.get("perf"))))
                break
        real.reset_world()
        real._tools.DeduplicateDecorator.tasks.clear()
        gc.collect()
        h = hashlib.blake2b(digest_size=8)
        for c in conc:
            h.update(repr(c.get("out")).encode())
            h.update(repr(len(c.get("trace", []))).encode())
        h.update(repr((baton.points, baton.switches)).encode())
        nev = sum(len(c.get("trace", [])) for c in conc)
        ndd = sum(1 for c in conc for e in c.get("trace", []) if e[0] == "dd_body")
        return {"violations": out[:3], "stats": {"events": nev, "probes": {"threads": len(progs), "preemption_points": baton.points,
                                                                           "points_inside_asynq_source": baton.in_asynq,
                                                                           "thread_switches": baton.switches, "dedup_bodies": ndd,
                                                                           "perf_stats_on": 1 if case.get("perf") else 0},
                                         "faults": {"thread_preemptions": baton.switches}},
                "sig": h.hexdigest(), "nontrivial": baton.switches >= 1, "digest": h.hexdigest(), "switches": baton.switches}


PROP = C16()
