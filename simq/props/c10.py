"""C10: a future is completed at most once and reports one consistent outcome.

History machine: seeded sequences of public operations on every future kind, compared operation
by operation with an explicit reference state machine (provider run count, callback log, exact
exception class / identity)."""
import zlib

from .. import real, prog
from ..prog import SimError

A = real.A

KINDS = ["future_ok", "future_raise", "const", "errorfuture", "task_ok", "task_raise", "task_item",
         "simbatch", "simitem", "debugitem", "debugbatch", "susp_ok", "susp_raise", "susp_yield",
         "selfcancel_batch", "selfcancel_item", "baseexc_batch", "baseexc_item"]
OPS = ["value", "error", "call", "is_computed", "set_value", "set_error", "reset", "sub_ok", "sub_raise"]


class Ref(object):
    """Reference state machine of one future."""

    def __init__(self, kind):
        self.kind = kind
        self.computed = kind in ("const", "errorfuture")
        self.val = "const" if kind == "const" else None
        self.err = "E:construct" if kind == "errorfuture" else None
        self.runs = 0
        self.subs = []  # [kind, count]
        self.sinking = kind in ("const", "errorfuture")

    def _notify(self):
        if not self.sinking:
            for s in self.subs:
                if s[0] == "sub_once" and s[1] >= 1:
                    continue  # it unsubscribed itself the first time
                s[1] += 1

    def compute(self):
        """Returns None or the tag of an exception the computing call itself raises."""
        k = self.kind
        self.runs += 1
        self.computed = True
        raised = None
        if k in ("future_ok", "task_ok"):
            self.val, self.err = "body:%s" % k, None
        elif k == "future_raise":
            self.val, self.err = None, "E:provider"
            raised = "E:provider"
        elif k == "task_raise":
            self.val, self.err = None, "E:body"
        elif k == "task_item":
            self.val, self.err = "item-value", None
        elif k in ("simbatch", "debugbatch"):
            self.val, self.err = None, None
        elif k == "simitem":
            self.val, self.err = "0:k", None
        elif k == "debugitem":
            self.val, self.err = "dbg", None
        elif k in ("baseexc_batch", "baseexc_item"):
            # the flush body raises a BaseException that is not an Exception
            self.val, self.err = None, "E:baseexc"
        elif k in ("selfcancel_batch", "selfcancel_item"):
            # the flush body cancels its own batch and returns normally: one outcome, the error
            self.val, self.err = None, "E:selfcancel"
        elif k == "susp_ok":
            self.val, self.err = "0:k", None
        elif k == "susp_raise":
            self.val, self.err = None, "E:close"
        elif k == "susp_yield":
            # on the normal path the yield inside `finally` is just one more (empty) yield
            self.val, self.err = "0:k", None
        self._notify()
        return raised


def _exc_tag(e):
    if isinstance(e, A.FutureIsAlreadyComputed):
        return "FutureIsAlreadyComputed"
    t = getattr(e, "tag", None)
    if t:
        return t
    return type(e).__name__


class _World(object):
    """Builds the real object for a kind (inside a minimal simulated world)."""

    def __init__(self, kind, log):
        self.log = log
        spec = {"templates": [{"kind": "fn", "steps": []}], "root": {"tmpl": 0}, "kinds": 1, "svs": 1, "faults": {}, "prio": {}}
        self.B = real.RealBackend(spec, ())
        self.B.setup()
        B = self.B
        runs = self.runs = [0]
        if kind == "future_ok":
            def prov():
                runs[0] += 1
                return "body:future_ok"
            self.f = A.Future(prov)
        elif kind == "future_raise":
            self.exc = SimError("E:provider")

            def prov():
                runs[0] += 1
                raise self.exc
            self.f = A.Future(prov)
        elif kind == "const":
            self.f = A.ConstFuture("const")
        elif kind == "errorfuture":
            self.exc = SimError("E:construct")
            self.f = A.ErrorFuture(self.exc)
        elif kind == "task_ok":
            @A.asynq()
            def t():
                runs[0] += 1
                return "body:task_ok"
            self.f = t.asynq()
        elif kind == "task_raise":
            self.exc = SimError("E:body")

            @A.asynq()
            def t():
                runs[0] += 1
                raise self.exc
                yield
            self.f = t.asynq()
        elif kind == "task_item":
            @A.asynq()
            def t():
                runs[0] += 1
                v = yield A.batching.DebugBatchItem("c10", "item-value")
                return v
            self.f = t.asynq()
        elif kind == "simbatch":
            it = real.SimItem(B.current[0], "i0", "k", B)
            self.f = it.batch
            self.count_flush = True
        elif kind == "simitem":
            self.f = real.SimItem(B.current[0], "i0", "k", B)
        elif kind == "debugitem":
            self.f = A.batching.DebugBatchItem("c10d", "dbg")
        elif kind == "debugbatch":
            self.f = A.batching.DebugBatchItem("c10d", "dbg").batch
        elif kind.startswith("baseexc"):
            from ..prog import SimBaseError

            class BEBatch(A.BatchBase):
                def _try_switch_active_batch(self):
                    pass

                def _flush(self):
                    runs[0] += 1
                    raise SimBaseError("E:baseexc")

            class BEItem(A.BatchItemBase):
                pass
            b = BEBatch()
            it = BEItem(b)
            self.keep = (b, it)
            self.f = b if kind == "baseexc_batch" else it
        elif kind.startswith("selfcancel"):
            W = self

            class SCBatch(A.BatchBase):
                def _try_switch_active_batch(self):
                    pass

                def _flush(self):
                    runs[0] += 1
                    self.cancel(SimError("E:selfcancel"))

            class SCItem(A.BatchItemBase):
                pass
            b = SCBatch()
            it = SCItem(b)
            self.keep = (b, it)
            self.f = b if kind == "selfcancel_batch" else it
        elif kind.startswith("susp_"):
            bad = kind[5:]

            @A.asynq()
            def t():
                runs[0] += 1
                try:
                    v = yield real.SimItem(B.current[0], "i0", "k", B)
                finally:
                    if bad == "raise":
                        raise SimError("E:close")
                    if bad == "yield":
                        yield None
                return v
            self.f = t.asynq()

            @A.asynq()
            def parent():
                try:
                    v = yield self.f
                except Exception as e:
                    return ("E", _exc_tag(e))
                return ("V", v)
            self.parent = parent

    def run_count(self, kind):
        if kind in ("simbatch", "simitem"):
            return len(self.B.flushes)
        if kind in ("debugitem", "debugbatch"):
            return None
        return self.runs[0]


class C10(object):
    id = "C10"

    def shrink_budget(self, tier):
        return (300, 20.0)

    def gen(self, rng, tier, k):
        if k % 32 == 7:
            # one lazily computed future named several times in one yield (and again later): its
            # provider runs once, every occurrence and every later read gives the same outcome
            from .. import gen as g
            kinds = 2
            fail = rng.random() < 0.3
            lz = ["lazy", "fail" if fail else "ok", "lz%d" % rng.randint(0, 9)]
            elems = [["ref", 0], ["ref", 0]]
            if rng.random() < 0.6:
                elems.insert(rng.randint(0, 2), ["call", 1, []])
            if rng.random() < 0.4:
                elems.append(["ref", 0])
            first = [["y", [rng.choice(["t", "l"]), elems]]]
            if fail:
                first = [["try", first, "all", []]]
            steps = [["c", lz]] + first + [["y", ["item", 0, 1]], ["y", ["ref", 0]] if not fail else ["y", ["item", 1, 2]]]
            spec = {"templates": [{"kind": "fn", "steps": steps}, {"kind": "fn", "steps": [["y", ["item", rng.randint(0, 1), 0]]]}],
                    "root": {"tmpl": 0, "conv": rng.choice(["call", "value", "wrapped"])}, "kinds": kinds, "svs": 1,
                    "yield_only": True, "reentry": False, "faults": {"items": {}, "flushes": {}, "ctx": {}}, "prio": g.gen_prio(rng, kinds),
                    "outcome_rate": 1.0, "probe_seed": rng.randint(0, 10 ** 6)}
            return {"kind": "sim", "spec": spec}
        if k % 4 == 3:
            # inside running computations: computed futures are re-read at seeded trace points
            from .. import gen as g
            cfg = g.swarm(rng, {"p_sync": 0.1, "p_try": 0.1, "p_fault": 0.15, "item_faults": 0.06, "flush_faults": 0.06,
                                "p_lazy": 0.12, "p_create": 0.25, "p_ref": 0.25, "p_ctx": 0.05})
            spec = g.gen_program(rng, cfg)
            spec["outcome_rate"] = rng.choice([0.3, 1.0])
            spec["probe_seed"] = rng.randint(0, 10 ** 6)
            return {"kind": "sim", "spec": spec}
        kind = KINDS[k % len(KINDS)] if rng.random() < 0.5 else rng.choice(KINDS)
        n = rng.randint(2, 14)
        ops = []
        for _ in range(n):
            op = rng.choice(OPS)
            if op == "reset" and not kind.startswith("future"):
                op = rng.choice(["value", "error", "is_computed"])
            ops.append([op, rng.randint(0, 99)])
        for op in ops:
            if op[0] == "sub_ok" and op[1] % 2 == 0:
                op[0] = "sub_once"  # a one-shot subscriber: unsubscribes itself when it is called
        case = {"kind": kind, "ops": ops}
        case["falsy_errors"] = zlib.crc32(repr(sorted(case.items())).encode()) % 4 == 0
        return case

    def sample(self, case, r):
        if case.get("kind") == "sim":
            return {"kind": "sim", "templates": case["spec"]["templates"][:2], "outcome_rate": case["spec"]["outcome_rate"]}
        return case

    def run(self, case, build):
        if case.get("kind") == "sim":
            from .. import progsim
            r = progsim.execute(case["spec"], ("C10",), check_values=False)
            out = [(c, m) for (p, c, m) in r["violations"] if p == "C10"]
            r["stats"]["probes"]["kind:sim"] = 1
            return {"violations": out, "stats": r["stats"], "sig": "sim:" + r["digest"],
                    "nontrivial": r["stats"]["probes"].get("computed_futures_reread", 0) > 3, "digest": r["digest"]}
        kind = case["kind"]
        out = []
        log = []
        W = _World(kind, log)
        prog.FALSY[0] = bool(case.get("falsy_errors"))
        f = W.f
        ref = Ref(kind)
        subs = []
        self.obs = []
        ops = list(case.get("ops", []))
        if kind.startswith("susp_"):
            # the history is applied while the task is suspended, from inside the flush body of
            # the batch it is blocked on; computing reads are skipped while it is uncomputed
            state = {"done": False}

            def hook(batch):
                if state["done"]:
                    return
                state["done"] = True
                ref.runs = 1
                self._apply(kind, W, f, ref, subs, out, ops, True)
            W.B.flush_hook = hook
            try:
                pres = W.parent()
            except BaseException as e:
                pres = ("X", _exc_tag(e))
            if not out:
                if not state["done"]:
                    out.append(("harness", "flush hook never ran"))
                if not ref.computed:
                    ref.compute()
                    ref.runs = 1
                exp = ("E", ref.err) if ref.err is not None else ("V", ref.val)
                if pres != exp:
                    out.append(("operation", "%s: awaiting task received %r, reference %r (history %s)" % (kind, pres, exp, [o[0] for o in ops])))
                a = [r[1] for r in subs]
                b = [r[1] for r in ref.subs]
                if a != b and not out:
                    out.append(("notify-once", "%s: subscriber call counts %s at the end, reference %s (history %s)" % (kind, a, b, [o[0] for o in ops])))
            ops = []
        self._apply(kind, W, f, ref, subs, out, ops, False)
        W.B.teardown()
        real.reset_world()
        nset = sum(1 for o in case.get("ops", []) if o[0].startswith("set_"))
        sig = kind + ":" + ",".join(o[0] for o in case.get("ops", []))
        return {"violations": out, "stats": {"events": len(case.get("ops", [])), "probes": {"kind:" + kind: 1, "double_set": 1 if nset >= 2 else 0}},
                "sig": sig, "nontrivial": len(case.get("ops", [])) >= 3, "digest": sig + "|" + repr(self.obs)}

    def _apply(self, kind, W, f, ref, subs, out, ops, suspended):
        nset = 0
        for idx, (op, arg) in enumerate(ops):
            if suspended and op in ("value", "error", "call", "reset") and not ref.computed:
                continue
            exp = None  # ("V", x) / ("E", tag)
            got = None
            try:
                if op in ("value", "call", "error"):
                    raised = None
                    if not ref.computed:
                        raised = ref.compute()
                    if raised is not None:
                        exp = ("E", raised)
                    elif op == "error":
                        exp = ("V", ref.err)
                    elif ref.err is not None:
                        exp = ("E", ref.err)
                    else:
                        exp = ("V", ref.val)
                    try:
                        if op == "value":
                            v = f.value()
                        elif op == "call":
                            v = f()
                        else:
                            v = f.error()
                            v = _exc_tag(v) if v is not None else None
                        got = ("V", v)
                    except Exception as e:
                        got = ("E", _exc_tag(e))
                    except BaseException as e:
                        if getattr(e, "tag", None) != "E:baseexc":
                            raise
                        got = ("E", _exc_tag(e))
                elif op == "is_computed":
                    exp = ("V", ref.computed)
                    got = ("V", bool(f.is_computed()))
                elif op in ("set_value", "set_error"):
                    nset += 1
                    if ref.computed:
                        exp = ("E", "FutureIsAlreadyComputed")
                    else:
                        exp = ("V", None)
                        if suspended and kind == "susp_raise":
                            exp = ("E", "E:close")
                        if suspended and kind == "susp_yield":
                            exp = ("E", "RuntimeError")
                        ref.computed = True
                        if op == "set_value":
                            ref.val, ref.err = "set:%d" % arg, None
                        else:
                            ref.val, ref.err = None, "E:set:%d" % arg
                        ref._notify()
                    try:
                        if op == "set_value":
                            f.set_value("set:%d" % arg)
                        else:
                            f.set_error(SimError("E:set:%d" % arg))
                        got = ("V", None)
                    except Exception as e:
                        got = ("E", _exc_tag(e))
                elif op == "reset":
                    ref.computed = False
                    ref.val = ref.err = None
                    f.reset_unsafe()
                    exp = got = ("V", None)
                elif op in ("sub_ok", "sub_raise", "sub_once"):
                    rec = [op, 0]
                    subs.append(rec)
                    ref.subs.append([op, 0])
                    snap = []

                    def cb(fut, rec=rec, raising=(op == "sub_raise"), once=(op == "sub_once"), me=[]):
                        rec[1] += 1
                        if not fut.is_computed():
                            out.append(("notify-before-visible", "%s: subscriber called while the future reports not computed" % kind))
                        if once:
                            fut.on_computed.unsubscribe(me[0])
                        if raising:
                            raise SimError("cb")
                    cb.__defaults__[-1].append(cb)
                    f.on_computed.subscribe(cb)
                    exp = got = ("V", None)
            except BaseException as e:  # harness-unexpected
                got = ("E", "UNEXPECTED:" + type(e).__name__ + ":" + str(e)[:80])
            self.obs.append((op, got))
            if exp != got:
                out.append(("operation", "%s: op #%d %s -> %r, reference state machine says %r (history %s)"
                            % (kind, idx, op, got, exp, [o[0] for o in ops[:idx + 1]])))
                break
            # cross-invariants after each step
            if bool(f.is_computed()) != ref.computed:
                out.append(("state", "%s: after op #%d %s is_computed()=%s, reference %s" % (kind, idx, op, f.is_computed(), ref.computed)))
                break
            rc = W.run_count(kind)
            if rc is not None and rc != ref.runs:
                out.append(("compute-once", "%s: underlying computation ran %d times after op #%d %s, reference %d" % (kind, rc, idx, op, ref.runs)))
                break
            a = [r[1] for r in subs]
            b = [r[1] for r in ref.subs]
            if a != b:
                out.append(("notify-once", "%s: subscriber call counts %s after op #%d %s, reference %s" % (kind, a, idx, op, b)))
                break


PROP = C10()
