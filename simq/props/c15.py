"""C15: fn.asyncio() under an event loop matches the asynq result.

Batch-free generated programs run three ways: sequential reference, fn(args) on the asynq
scheduler, and `await fn.asyncio(args)` on a virtual-time event loop (seeded asyncio.sleep delays
in explicit asyncio_fn leaves vary sibling completion order; several top-level computations run
as concurrent asyncio tasks with seeded start offsets)."""
import asyncio
import copy
import heapq

from .. import real, gen, model, prog
from ..prog import Inst, errtok, flatten, HarnessError, SimError

A = real.A


class _CustomAwaitable(object):
    """An awaitable that is neither a coroutine nor an asyncio Future."""

    def __init__(self, coro):
        self._coro = coro

    def __await__(self):
        return self._coro.__await__()


class VLoop(asyncio.SelectorEventLoop):
    """Virtual-time event loop: time() is simulated; when nothing is ready the clock jumps to the
    next timer, so seeded delays cost nothing."""

    def __init__(self):
        super().__init__()
        self._vt = 0.0
        self.jumps = 0

    def time(self):
        return self._vt

    def _run_once(self):
        if not self._ready and self._scheduled:
            when = self._scheduled[0]._when
            if when > self._vt:
                self._vt = when
                self.jumps += 1
        super()._run_once()


class AioBackend(real.RealBackend):
    """Real backend in asyncio mode: children are coroutines obtained from .asynq() (redirected to
    .asyncio() by asynq); no scheduler, no batches."""

    def __init__(self, spec, prefix):
        real.RealBackend.__init__(self, spec, ("C15",))
        self.prefix = prefix
        self.coro_inst = {}
        self.mode_seen = []

    def call(self, parent, child):
        fut = self.callers[child.tmpl](child)
        import inspect
        if not inspect.isawaitable(fut):
            self.viol("C15", "redirect", ".asynq() inside asyncio mode returned %s, not an awaitable" % type(fut).__name__)
            return fut
        self.insts[child.token] = child
        if self.spec.get("raw_awaitables"):
            # hand asynq exactly what .asynq() returned (a coroutine, or the Task of an explicit
            # asyncio_fn); no completion tracking for these leaves
            self.probes["raw_awaitable_yielded"] += 1
            return fut
        t = self._track(child, fut)
        self.coro_inst[id(t)] = (child, t)
        return t

    async def _track(self, inst, coro):
        try:
            return await coro
        finally:
            inst.done = True

    def item(self, inst, tok, kind, key):
        raise HarnessError("items are not part of batch-free programs")

    def _mode_check(self, inst, where):
        if not A.is_asyncio_mode():
            self.viol("C15", "mode-inside", "is_asyncio_mode() is False inside the body of %s (%s)" % (inst.token, where))

    def on_start(self, inst):
        inst.started = True
        self.insts.setdefault(inst.token, inst)
        self.ev("start", inst.token)
        self._mode_check(inst, "start")

    def pre_yield(self, inst, struct):
        inst.awaiting = struct
        inst.nyield += 1

    def post_yield(self, inst, struct, val, err):
        self.ev("recv", inst.token, inst.nyield, repr(val) if err is None else ("E", errtok(err)))
        self._mode_check(inst, "resume")
        first_fail = None
        for leaf, path, plain in flatten(struct):
            rec = self.coro_inst.get(id(leaf))
            if rec is None:
                continue
            ci = rec[0]
            if not ci.done:
                self.viol("C15", "siblings-complete", "%s was resumed (%s) while awaitable %s yielded alongside had not finished"
                          % (inst.token, "failure delivered" if err is not None else "value delivered", ci.token))
        inst.awaiting = None

    def pre_sync(self, inst, st):
        pass

    def sync(self, inst, node, how):
        # a plain synchronous call of an @asynq() function must refuse to block the loop
        tmpl = node[1] if node[0] == "call" else None
        if not isinstance(tmpl, int) or tmpl <= inst.tmpl or tmpl >= len(self.spec["templates"]):
            return "nocall"
        child = Inst("%s.%d" % (inst.token, inst.n), tmpl, [], inst)
        inst.n += 1
        try:
            self.synccallers[tmpl](child)
        except RuntimeError:
            self.probes["sync_call_refused"] += 1
            return "refused"
        self.viol("C15", "sync-refused", "a synchronous call of an @asynq() function inside asyncio mode did not raise RuntimeError")
        return "refused"

    def post_sync(self, inst, val, err):
        pass

    def on_exit(self, inst):
        inst.awaiting = None

    def result(self, val):
        A.result(val)


def _strip_sync(steps):
    out = []
    for st in steps:
        if st[0] == "s":
            out.append(["c", ["const", "refused"]])
            continue
        if st[0] == "try":
            st = ["try", _strip_sync(st[1]), st[2], _strip_sync(st[3])]
        elif st[0] in ("with", "blk"):
            st = list(st)
            st[-1] = _strip_sync(st[-1])
        out.append(st)
    return out


class C15(object):
    id = "C15"
    cfg = {"p_item": 0.0, "p_sync": 0.06, "p_try": 0.15, "p_fault": 0.0, "p_create": 0.0, "p_ref": 0.0, "p_lazy": 0.0,
           "tree_only": True, "no_items": True, "p_debug_kinds": 0.0, "max_templates": 7, "p_call": 0.7, "p_result": 0.2,
           "kinds_of_tmpl": ["fn", "fn", "fn", "pure", "method", "classmethod", "staticmethod", "proxy", "plain", "aiofn", "aiofn"]}

    def shrink_budget(self, tier):
        return (300, 25.0)

    def _wide(self, rng):
        """One yield of a few hundred awaitables, one of the first of which fails at once while the
        others still have suspension points: the failure is delivered after all of them finished."""
        n = rng.choice([130, 200, 300])
        pos = rng.randint(0, 100)
        calls = [["call", 1, []] for _ in range(n)]
        calls[pos] = ["call", 2, []]
        root = [["try", [["y", [rng.choice(["l", "t"]), calls]]], "all", []]] if rng.random() < 0.5 else [["y", [rng.choice(["l", "t"]), calls]]]
        leaf = {"kind": "aiofn", "steps": [["ret", "const"]], "delay_ms": rng.randint(1, 20), "aio_raises": False,
                "aio_returns_task": rng.random() < 0.3, "aio_custom_awaitable": False}
        bad = {"kind": "fn", "steps": [["raise", "e%d" % rng.randint(0, 9)]]}
        spec = {"templates": [{"kind": "fn", "steps": root}, leaf, bad], "root": {"tmpl": 0, "conv": "call"}, "kinds": 1, "svs": 1,
                "yield_only": True, "reentry": False, "faults": {"items": {}, "flushes": {}, "ctx": {}}, "prio": {}}
        return {"computations": [{"spec": spec, "offset_ms": 0}]}

    def gen(self, rng, tier, k):
        if k % 40 == 9:
            return self._wide(rng)
        ncomp = rng.randint(1, 3)
        comps = []
        for _ in range(ncomp):
            cfg = gen.swarm(rng, self.cfg)
            cfg["p_item"] = 0.0
            cfg["kinds"] = 1
            spec = gen.gen_program(rng, cfg)
            spec.pop("debug_kinds", None)
            # failures: raise steps only (ErrorFuture / lazily computed Futures are not awaitables)
            for t in spec["templates"]:
                if rng.random() < 0.3:
                    pos = rng.randint(0, len(t["steps"]))
                    t["steps"].insert(pos, ["raise", "e%d" % rng.randint(0, 9)])
                if t["kind"] == "aiofn":
                    t["delay_ms"] = rng.randint(0, 30)
                    t["aio_raises"] = rng.random() < 0.25
                    t["aio_returns_task"] = rng.random() < 0.4
                    # ... or an object of the user's own with __await__ (any Awaitable will do)
                    t["aio_custom_awaitable"] = t["delay_ms"] % 3 == 0
                    t["steps"] = [["raise", "aio%d" % rng.randint(0, 9)]] if t["aio_raises"] else [["ret", "const"]]
                elif rng.random() < 0.08 and t["steps"] and t["steps"][-1][0] not in ("ret", "res"):
                    # a task whose value is an exception instance (returned, not raised)
                    t["steps"].append([rng.choice(["ret", "res"]), "excval"])
            spec["root"]["conv"] = "call"
            if rng.random() < 0.4:
                spec["raw_awaitables"] = True
            comps.append({"spec": spec, "offset_ms": rng.randint(0, 20)})
        return {"computations": comps}

    def sample(self, case, r):
        c = case["computations"][0]
        return {"n_computations": len(case["computations"]), "first": {"templates": c["spec"]["templates"][:3], "offset_ms": c["offset_ms"]},
                "outcomes": r.get("outcomes")}

    def run(self, case, build):
        out = []
        stats = {"probes": {}, "faults": {}, "events": 0}
        comps = case.get("computations", [])
        refs = []
        syncs = []
        # 1. reference + 2. asynq scheduler, one computation at a time
        for ci, c in enumerate(comps):
            spec = copy.deepcopy(c["spec"])
            spec["templates"] = [dict(t, kind="fn" if t.get("kind") == "aiofn" else t.get("kind", "fn")) for t in spec["templates"]]
            sspec = copy.deepcopy(spec)
            for t in sspec["templates"]:
                t["steps"] = _strip_sync(t["steps"])
            M = model.ModelBackend(sspec, {}, mode="seq")
            try:
                mroot = M.run_root()
            except (model.ModelGap, RecursionError) as e:
                raise HarnessError("reference failed: %r" % (e,))
            refs.append((mroot.inst.outcome, {tok: [(k, v[0]) for k, v in i.recv] for tok, i in M.insts.items() if i.started}))
            Bs = real.RealBackend(sspec, ())
            o = Bs.run()
            if isinstance(o[1], HarnessError):
                raise o[1]
            syncs.append(("V", repr(o[1])) if o[0] == "V" else ("E", errtok(o[1])))
            stats["events"] += len(Bs.trace)
        # 3. asyncio, all computations concurrently on one virtual-time loop
        real.reset_world()
        loop = VLoop()
        asyncio.set_event_loop(loop)
        backs = []
        outcomes = [None] * len(comps)
        mode_flags = {"before": A.is_asyncio_mode(), "ticker": []}

        async def one(ci, c):
            spec = copy.deepcopy(c["spec"])
            B = AioBackend(spec, "c%d" % ci)
            B.spec = spec
            B.scheduler = A.scheduler.get_scheduler()
            B.current = []
            B.svs = [A.AsyncScopedValue(0)]
            B.attr = real.AttrTarget()
            B.attr.x = 0
            B.defaults = [0, 0]
            self._make_templates(B, spec)
            backs.append(B)
            await asyncio.sleep(c.get("offset_ms", 0) / 1000.0)
            root = Inst("r", spec["root"]["tmpl"], [])
            B.root = root
            B.insts["r"] = root
            try:
                v = await B.aio_root[root.tmpl](root)
                outcomes[ci] = ("V", repr(v))
            except HarnessError:
                raise
            except BaseException as e:
                outcomes[ci] = ("E", errtok(e))
            if A.is_asyncio_mode():
                B.viol("C15", "mode-after", "is_asyncio_mode() still True in the awaiting coroutine after fn.asyncio() finished (%s)" % (outcomes[ci],))
            return B

        async def ticker():
            for _ in range(40):
                mode_flags["ticker"].append(A.is_asyncio_mode())
                await asyncio.sleep(0.003)

        async def main():
            t = asyncio.ensure_future(ticker())
            res = await asyncio.gather(*[one(ci, c) for ci, c in enumerate(comps)])
            t.cancel()
            try:
                await t
            except asyncio.CancelledError:
                pass
            return res
        try:
            loop.run_until_complete(main())
        finally:
            mode_flags["after"] = A.is_asyncio_mode()
            try:
                loop.close()
            finally:
                asyncio.set_event_loop(None)
        if mode_flags["before"] or mode_flags["after"]:
            out.append(("mode-confined", "is_asyncio_mode() is True outside any .asyncio() coroutine (before=%s, after=%s)" % (mode_flags["before"], mode_flags["after"])))
        if any(mode_flags["ticker"]):
            out.append(("mode-confined", "is_asyncio_mode() observed True inside an unrelated, concurrently running asyncio task"))
        for ci, B in enumerate(backs):
            for (p, c, m, n) in B.violations:
                out.append((c, "computation %d: %s" % (ci, m)))
            for k, v in B.probes.items():
                stats["probes"][k] = stats["probes"].get(k, 0) + v
            stats["events"] += len(B.trace)
        for ci, c in enumerate(comps):
            if out:
                break
            ref_out, ref_recv = refs[ci]
            if syncs[ci] != ref_out:
                raise HarnessError("asynq run %r differs from reference %r (C01 territory) in C15 harness" % (syncs[ci], ref_out))
            if outcomes[ci] != ref_out:
                out.append(("outcome", "computation %d: await fn.asyncio() gave %r, fn() gives %r" % (ci, outcomes[ci], ref_out)))
                break
            B = [b for b in backs if b.prefix == "c%d" % ci][0]
            for tok, rr in ref_recv.items():
                inst = B.insts.get(tok)
                if inst is None or not inst.started:
                    out.append(("task-missing", "computation %d: task %s ran under fn() but not under fn.asyncio()" % (ci, tok)))
                    break
                a = [(k, v[0]) for k, v in inst.recv]
                a = [x for x in a if not (x[0] == "SV" and x[1] == "'refused'")]
                b = [x for x in rr if not (x[0] == "V" and False)]
                if _norm(a) != _norm(b):
                    out.append(("received", "computation %d: task %s received %r under fn.asyncio(), %r under fn()" % (ci, tok, a, b)))
                    break
        stats["sim_us"] = int(loop._vt * 1e6)
        stats["probes"]["virtual_clock_jumps"] = loop.jumps
        stats["probes"]["concurrent_computations"] = len(comps)
        nt = sum(len(c["spec"]["templates"]) for c in comps)
        sig = repr(case)
        return {"violations": out[:3], "stats": stats, "sig": sig, "nontrivial": nt >= 2, "digest": sig, "outcomes": outcomes}

    def _make_templates(self, B, spec):
        """Like RealBackend._make_templates, plus `aiofn` leaves with an explicit asyncio_fn."""
        B._make_templates()
        aio_root = []
        for idx, t in enumerate(spec["templates"]):
            if t.get("kind") == "aiofn":
                delay = t.get("delay_ms", 0) / 1000.0
                raises = t.get("aio_raises")
                tag = t["steps"][0][1] if raises else None

                def gen_body(inst, B=B):
                    try:
                        return (yield from prog.body(B, inst))
                    finally:
                        B.on_exit(inst)

                async def afn(inst, delay=delay, raises=raises, tag=tag, B=B):
                    inst.started = True
                    B.insts.setdefault(inst.token, inst)
                    B.probes["explicit_asyncio_fn"] += 1
                    await asyncio.sleep(delay)
                    if not A.is_asyncio_mode():
                        pass  # an explicit asyncio_fn runs outside AsyncioMode; nothing is stated about it
                    if raises:
                        e = SimError("%s@%s.%d" % (tag, inst.token, inst.n))
                        inst.n += 1
                        raise e
                    return prog.task_value(inst, "const")
                if t.get("aio_custom_awaitable"):
                    def afn_custom(inst, afn=afn):
                        B.probes["custom_awaitable"] += 1
                        return _CustomAwaitable(afn(inst))
                    fn = A.asynq(asyncio_fn=afn_custom)(gen_body)
                elif t.get("aio_returns_task"):
                    # the explicit asyncio_fn hands back an asyncio Task (an awaitable that is not
                    # a coroutine) instead of being a coroutine function
                    def afn_task(inst, afn=afn):
                        return asyncio.ensure_future(afn(inst))
                    fn = A.asynq(asyncio_fn=afn_task)(gen_body)
                else:
                    fn = A.asynq(asyncio_fn=afn)(gen_body)
                B.callers[idx] = fn.asynq
                B.synccallers[idx] = fn
                aio_root.append(fn.asyncio)
            else:
                aio_root.append(None)
        # .asyncio entry points of the ordinary templates
        for idx, t in enumerate(spec["templates"]):
            if aio_root[idx] is None:
                c = B.callers[idx]
                owner = getattr(c, "__self__", None)
                aio_root[idx] = self._asyncio_of(B, idx, t)
        B.aio_root = aio_root

    def _asyncio_of(self, B, idx, t):
        kind = t.get("kind", "fn")
        c = B.synccallers[idx]
        if kind in ("fn", "plain", "method", "classmethod", "staticmethod"):
            return c.asyncio
        # pure / proxy: go through .asynq()'s redirect from inside a tiny asyncio-mode wrapper
        caller = B.callers[idx]

        @A.asynq()
        def via(inst):
            return (yield caller(inst))
        return via.asyncio


def _norm(recv):
    return [(k if k != "SV" else "V", v) for k, v in recv]


PROP = C15()
