from ._prog import ProgProp


class C01(ProgProp):
    id = "C01"
    report = ("C01",)
    cfg = {"p_sync": 0.12, "p_try": 0.08, "p_ctx": 0.06, "p_sv": 0.06, "p_fault": 0.15, "item_faults": 0.05,
           "p_timer": 0.02, "p_item_value_sync": 0.2, "flush_faults": 0.04, "flush_reenter": 0.3, "flush_cancels": 0.2,
           "base_exc": 0.2, "p_item_eq": 0.15, "p_ext_tasks": 0.12}


    def gen(self, rng, tier, k):
        if k % 32 == 9:
            from .. import gen as g
            spec = g.motif_cancel_scheduled(rng)
            spec["keep_prio"] = True
            return self.motif_case(rng, tier, spec)
        return ProgProp.gen(self, rng, tier, k)


PROP = C01()
