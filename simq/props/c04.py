from ._prog import ProgProp


class C04(ProgProp):
    id = "C04"
    report = ("C04", "MODEL")
    staged = True
    cfg = {"p_sync": 0.0, "p_try": 0.08, "p_fault": 0.08, "p_ctx": 0.05, "p_na": 0.03, "max_kinds": 4, "item_faults": 0.03,
           "p_item": 0.5, "max_templates": 10, "flush_faults": 0.08, "p_item_eq": 0.2}

    def tune(self, rng, cfg, tier):
        if rng.random() < 0.35:
            cfg["tree_only"] = True
            cfg["kinds"] = 1
            cfg["p_create"] = cfg["p_ref"] = 0.0
            cfg["p_na"] = 0.0
        return cfg


    def gen(self, rng, tier, k):
        if k % 16 == 7:
            from .. import gen as g
            return self.motif_case(rng, tier, g.motif_cache_hit(rng))
        if k % 100 == 37:
            from .. import gen as g
            return self.motif_case(rng, tier, g.motif_wide(rng, "plain"))
        return ProgProp.gen(self, rng, tier, k)


    def post_spec(self, rng, spec, cfg, tier):
        import json
        import zlib
        # batching must be the same with profiling on
        dg = zlib.crc32(json.dumps(spec["templates"], sort_keys=True).encode())
        if dg % 4 == 0:
            spec["options"] = {"COLLECT_PERF_STATS": True}
        if (dg // 4) % 4 == 0 and not spec.get("item_eq") and not spec.get("tree_only") \
                and '"na"' not in json.dumps(spec["templates"]):  # (NonAsyncContext prediction needs the pass/flush model)
            # some requests are local cache hits: answered when made, their batch still pending
            spec["cache_hits"] = True


PROP = C04()
