from ._prog import ProgProp


class C06(ProgProp):
    id = "C06"
    report = ("C06",)
    cfg = {"p_sync": 0.1, "p_try": 0.12, "p_fault": 0.12, "p_ctx": 0.3, "p_sv": 0.05, "p_na": 0.06, "p_timer": 0.04,
           "p_create": 0.2, "p_ref": 0.2, "item_faults": 0.04, "p_cb_ctx": 0.2}

    def tune(self, rng, cfg, tier):
        if cfg["p_na"] > 0:
            cfg["p_sync"] = 0.0  # NonAsyncContext prediction needs the pass/flush model (yield-only)
        return cfg


    def gen(self, rng, tier, k):
        if rng.random() < 0.08:
            from .. import gen as g
            spec = g.motif_abandoned(rng)
            nv = self.variants_quick if tier == "quick" else self.variants_thorough
            return {"spec": spec, "variants": [{"conv": ["call", "value", "wrapped"][i % 3], "prio": g.gen_prio(rng, spec["kinds"])}
                                               for i in range(nv)]}
        from .. import gen as g
        if k % 100 == 37:
            return self.motif_case(rng, tier, g.motif_wide(rng, "ctx" if k % 200 == 37 else "na"))
        if k % 16 == 9:
            return self.motif_case(rng, tier, g.motif_aio_inside_task(rng))
        if k % 16 == 5:
            return self.motif_case(rng, tier, g.motif_unnested_ctx(rng))
        if k % 16 == 13:
            return self.motif_case(rng, tier, g.motif_sync_then_ctx(rng))
        if rng.random() < 0.06:
            spec = g.motif_exit_fault(rng)
            nv = self.variants_quick if tier == "quick" else self.variants_thorough
            return {"spec": spec, "variants": [{"conv": ["call", "value", "wrapped"][i % 3], "prio": g.gen_prio(rng, spec["kinds"])}
                                               for i in range(nv)]}
        case = ProgProp.gen(self, rng, tier, k)
        import json
        import zlib
        dg = zlib.crc32(json.dumps(case["spec"]["templates"], sort_keys=True).encode())
        if dg % 10 == 1:
            case["spec"].setdefault("faults", {})["callbacks"] = {"#%d" % (1 + (dg // 10) % 6): "base" if (dg // 60) % 2 else True}
            case["spec"]["ctx_fault"] = True
        if dg % 10 == 0:
            # the runaway-recursion guard stops the computation: no context may be left active
            case["spec"]["max_stack"] = 2 + (dg // 10) % 5
            case["spec"]["ctx_fault"] = True
        if rng.random() < 0.15:
            # a context whose resume() raises when its suspended task is resumed: the task fails;
            # every other context it holds must still end paused
            case["spec"].setdefault("faults", {}).setdefault("ctx", {})["#%d" % rng.randint(1, 4)] = [rng.choice(["resume", "resume", "pause"]), rng.randint(2, 3)]
            case["spec"]["ctx_fault"] = True
        return case


PROP = C06()
