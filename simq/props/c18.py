"""C18: diagnostics are faithful and total.

(a) glued tracebacks over generated chain/tree programs (depth, raise position, catch/re-raise
    positions, before/after a flush, sync-call levels, a failure that was awaited and swallowed
    elsewhere first);  (b) format_asynq_stack() inside bodies;  (c) str/repr/dump of every live
    asynq object at seeded trace points of program simulations, (d) format_error;
(e) filter_traceback - a pure text function, decided by seeded generation against an independent
    reference rewriting (no schedule, clock or fault in it; reported apart)."""
import linecache
import re
import zlib
import traceback

from ._prog import ProgProp
from .. import real, gen, progsim
from ..prog import HarnessError

A = real.A
from asynq import debug as adebug  # noqa: E402

TASK_CONTINUE = ["asynq.async_task.AsyncTask._continue", "asynq.async_task.AsyncTask._continue_on_generator",
                 "asynq.async_task.AsyncTask._continue_on_generator"]
FUTURE_BASE = ["asynq.decorators.AsyncDecorator.__call__", "asynq.futures.FutureBase.value", "asynq.futures.FutureBase.value",
               "asynq.futures.FutureBase.raise_if_error", "reraise", "six.reraise", "reraise", "value"]
CALL_PURE = ["asynq.decorators.AsyncDecorator.asynq", "asynq.decorators.AsyncProxyDecorator._call_pure",
             "asynq.decorators.AsyncProxyDecorator._call_pure", "asynq.decorators.AsyncProxyDecorator._call_pure",
             "asynq.decorators.async_call"]
PATTERNS = [(TASK_CONTINUE, "___asynq_continue___"), (FUTURE_BASE, "___asynq_future_raise_if_error___"), (CALL_PURE, "___asynq_call_pure___")]


def ref_filter(lines):
    """Independent reference: left to right; at each position the first pattern whose lines all
    occur, one per input line, in the next len(pattern) input lines is replaced by its marker."""
    out = []
    i = 0
    n = len(lines)
    while i < n:
        hit = None
        for pat, marker in PATTERNS:
            m = len(pat)
            if i + m <= n and all(pat[j] in lines[i + j] for j in range(m)):
                hit = (m, marker)
                break
        if hit:
            out.append("  " + hit[1] + "\n")
            i += hit[0]
        else:
            out.append(lines[i])
            i += 1
    return out


def gen_lines(rng):
    foreign = ['  File "user/code.py", line %d, in handler\n', "    value = compute(x)\n", "Traceback (most recent call last):\n",
               "ValueError: boom %d\n", '  File "lib/reraise.py", line %d, in something\n', "    raise value\n"]
    lines = []
    for _ in range(rng.randint(0, 6)):
        r = rng.random()
        if r < 0.45:
            pat, _m = rng.choice(PATTERNS)
            k = len(pat)
            mode = rng.random()
            if mode < 0.5:
                lo, hi = 0, k  # complete run
            elif mode < 0.75:
                lo, hi = 0, rng.randint(1, k - 1)  # prefix only
            else:
                lo, hi = rng.randint(1, k - 1), k  # tail only
            for j in range(lo, hi):
                lines.append('  File "asynq/x.py", line %d, in %s\n' % (rng.randint(1, 400), pat[j]))
        else:
            f = rng.choice(foreign)
            lines.append(f % rng.randint(1, 99) if "%d" in f else f)
    return lines


class C18(ProgProp):
    id = "C18"
    report = ("C18",)
    monitors = ("C18",)
    cfg = {"p_sync": 0.1, "p_try": 0.1, "p_ctx": 0.1, "p_sv": 0.08, "p_na": 0.03, "p_fault": 0.15, "item_faults": 0.06,
           "flush_faults": 0.08, "p_timer": 0.03, "p_item_value_sync": 0.1, "p_lazy": 0.12}

    def gen(self, rng, tier, k):
        kind = ["tb", "probe", "filter"][k % 3]
        if kind == "probe":
            cfg = gen.swarm(rng, self.base_cfg(tier))
            if cfg["p_na"] > 0:
                cfg["p_sync"] = 0.0
            spec = gen.gen_program(rng, cfg)
            spec["probe_rate"] = rng.choice([0.2, 0.5, 1.0])
            spec["probe_seed"] = rng.randint(0, 10 ** 6)
            if rng.random() < 0.3:
                spec["options"] = {"KEEP_DEPENDENCIES": True}
            return {"kind": "probe", "spec": spec}
        if kind == "filter":
            return {"kind": "filter", "lines": gen_lines(rng)}
        d = rng.randint(2, 12)
        levels = []
        for i in range(d):
            lv = {"how": "yield" if rng.random() < 0.8 else "sync", "pre": rng.randint(0, 2) if rng.random() < 0.3 else 0,
                  "catch": rng.choice([None, None, None, "bare", "same", "await_then_reraise"]), "siblings": rng.randint(0, 2) if rng.random() < 0.3 else 0,
                  "sib_first": rng.random() < 0.5, "container": rng.choice(["t", "l", "d"])}
            levels.append(lv)
        case = {"kind": "tb", "depth": d, "levels": levels, "raise_after": rng.randint(0, 2),
                "swallow_at": rng.randint(0, d - 2) if rng.random() < 0.25 else None,
                "swallow_then": rng.choice(["yield", "value"]), "base_exc": rng.random() < 0.2,
                "stack_at": rng.randint(0, d - 1), "conv": rng.choice(["call", "value"])}
        # one traceback program in four: the failure is not raised by user code but is the
        # AssertionError of a request a flush left unanswered, and a second, unrelated chain awaits
        # another request the same flush forgot (decided by a digest: generator stream unchanged)
        dg = zlib.crc32(repr(sorted(case.items())).encode())
        if dg % 4 == 0:
            case["unset_pair"] = True
        elif dg % 4 == 1:
            # the failure is raised by a context hook: the bottom task is suspended inside a
            # with-block and the context's resume() raises when the scheduler resumes it
            case["ctx_bottom"] = True
        if (dg // 4) % 8 == 0:
            # a chain of 45-70 task levels (the stack listing must still name every creator)
            extra = 43 + (dg // 32) % 25
            case["levels"] = case["levels"][:-1] + [{"how": "yield", "pre": 0, "catch": None, "siblings": 0, "sib_first": False, "container": "t"}
                                                    for _ in range(extra)] + case["levels"][-1:]
            case["depth"] = d + extra
            case["stack_at"] = case["depth"] - 1 - (dg // 800) % 3
            if case["swallow_at"] is not None:
                case["swallow_at"] = min(case["swallow_at"], d - 2)
        return case

    def sample(self, case, r):
        if case["kind"] == "probe":
            return {"kind": "probe", "templates": case["spec"]["templates"][:2], "probe_rate": case["spec"]["probe_rate"]}
        return case

    def run(self, case, build):
        kind = case.get("kind")
        if kind == "probe":
            r = progsim.execute(case["spec"], ("C18",), check_values=False)
            out = [(c, m) for (p, c, m) in r["violations"] if p == "C18"]
            r["stats"]["probes"]["kind:probe"] = 1
            return {"violations": out, "stats": r["stats"], "sig": "probe:" + r["digest"],
                    "nontrivial": r["stats"]["probes"].get("objects_printed", 0) > 3, "digest": r["digest"], "outcome": r["outcome"]}
        if kind == "filter":
            return self._run_filter(case)
        return self._run_tb(case)

    def _run_filter(self, case):
        lines = [str(x) for x in case.get("lines", [])]
        out = []
        try:
            got = adebug.filter_traceback(list(lines))
        except Exception as e:
            got = None
            out.append(("filter-raises", "filter_traceback raised %s" % type(e).__name__))
        exp = ref_filter(lines)
        if got is not None and got != exp:
            out.append(("filter", "filter_traceback(%r) gave %r, reference rewriting %r" % (lines, got, exp)))
        if got is not None and not out:
            markers = {"  " + m + "\n" for _, m in PATTERNS}
            rest = [l for l in got if l not in markers]
            it = iter(lines)
            if not all(any(l is x or l == x for x in it) for l in rest):
                out.append(("filter-order", "non-boilerplate lines were changed or reordered"))
        nmark = sum(1 for l in exp if l.strip().startswith("___asynq"))
        return {"violations": out, "stats": {"events": len(lines), "probes": {"kind:filter": 1, "filter_markers": nmark,
                                                                             "filter_partial_runs": 1 if len(exp) > nmark and nmark < len(lines) else 0}},
                "sig": "filter:" + repr(lines), "nontrivial": len(lines) >= 3, "digest": repr(lines)}

    def _run_tb(self, case):
        real.reset_world()
        spec = {"templates": [{"kind": "fn", "steps": []}], "root": {"tmpl": 0}, "kinds": 2, "svs": 1, "prio": {},
                "faults": {"items": {"0:forgotten": "unset", "1:forgotten": "unset"}}}
        B = real.RealBackend(spec, ())
        B.setup()
        unset_pair = bool(case.get("unset_pair"))
        ctx_bottom = bool(case.get("ctx_bottom")) and not unset_pair
        d = max(2, int(case.get("depth", 2)))
        levels = (case.get("levels") or [])[:d]
        while len(levels) < d:
            levels.append({"how": "yield", "pre": 0, "catch": None, "siblings": 0, "sib_first": False, "container": "t"})
        swallow_at = case.get("swallow_at")
        stack_at = int(case.get("stack_at", d - 1)) % d
        nitem = [0]
        stacks = {}

        def item():
            nitem[0] += 1
            return real.SimItem(B.current[nitem[0] % 2], "tb.i%d" % nitem[0], "k", B)

        def forgotten_item():
            nitem[0] += 1
            return real.SimItem(B.current[0], "tb.u%d" % nitem[0], "forgotten", B)

        # the failure is an ordinary Exception or a user-defined BaseException subclass
        Boom = type("Boom", ((BaseException,) if case.get("base_exc") else (Exception,)), {})
        if unset_pair:
            Boom = AssertionError
        src = []
        src.append("@A.asynq()\ndef sibling(n):\n    for _ in range(n):\n        yield item()\n    return n\n")
        src.append("@A.asynq()\ndef swallower(fut):\n    try:\n        yield fut\n    except Boom:\n        pass\n    return 'swallowed'\n")
        for i in range(d):
            lv = levels[i]
            body = ["@A.asynq()", "def lvl_%d():" % i]
            for _ in range(int(lv.get("pre", 0))):
                body.append("    yield item()")
            if i == stack_at:
                body.append("    stacks[%d] = adebug.format_asynq_stack()" % i)
            if i == d - 1:
                for _ in range(int(case.get("raise_after", 0))):
                    body.append("    yield item()")
                if unset_pair:
                    body.append("    yield forgotten_item()")
                elif ctx_bottom:
                    body.append("    with RaisingCtx():")
                    body.append("        yield item()")
                    body.append("    return 0")
                else:
                    body.append("    raise Boom('bottom')")
                    body.append("    yield")
            else:
                ind = "    "
                if lv.get("catch"):
                    body.append("    try:")
                    ind = "        "
                if swallow_at == i:
                    body.append(ind + "child = lvl_%d.asynq()" % (i + 1))
                    body.append(ind + "yield swallower.asynq(child)")
                    if case.get("swallow_then") == "value":
                        body.append(ind + "v = child.value()")
                    else:
                        body.append(ind + "v = yield child")
                elif lv.get("how") == "sync":
                    body.append(ind + "v = lvl_%d()" % (i + 1))
                else:
                    nsib = int(lv.get("siblings", 0))
                    if nsib:
                        sibs = ["sibling.asynq(%d)" % (j + 1) for j in range(nsib)]
                        elems = (sibs + ["lvl_%d.asynq()" % (i + 1)]) if lv.get("sib_first") else (["lvl_%d.asynq()" % (i + 1)] + sibs)
                        c = lv.get("container", "t")
                        if c == "d":
                            expr = "{" + ", ".join("%d: %s" % (j, e) for j, e in enumerate(elems)) + "}"
                        elif c == "l":
                            expr = "[" + ", ".join(elems) + "]"
                        else:
                            expr = "(" + ", ".join(elems) + ",)"
                        body.append(ind + "v = yield " + expr)
                    else:
                        body.append(ind + "v = yield lvl_%d.asynq()" % (i + 1))
                if lv.get("catch") == "bare":
                    body += ["    except Boom:", "        raise"]
                elif lv.get("catch") == "await_then_reraise":
                    # catch the child's error, await something else, then re-raise it
                    body += ["    except Boom:", "        yield item()", "        raise"]
                elif lv.get("catch") == "same":
                    body += ["    except Boom as e:", "        raise e"]
                body.append("    return v")
            src.append("\n".join(body) + "\n")
        src.append("@A.asynq()\ndef side_1():\n    v = yield forgotten_item()\n    return v\n")
        src.append("@A.asynq()\ndef side_0():\n    v = yield side_1.asynq()\n    return v\n")
        src.append("@A.asynq()\ndef top():\n    v = yield (lvl_0.asynq(), side_0.asynq())\n    return v\n")
        text = "\n".join(src)
        fname = "<simq-c18-%d>" % (hash(text) & 0xffffff)
        linecache.cache[fname] = (len(text), None, text.splitlines(True), fname)
        class RaisingCtx(A.AsyncContext):
            def __init__(self):
                self.n = 0

            def resume(self):
                self.n += 1
                if self.n == 2:
                    raise Boom("bottom")

            def pause(self):
                pass
        g = {"A": A, "item": item, "Boom": Boom, "stacks": stacks, "adebug": adebug, "forgotten_item": forgotten_item, "RaisingCtx": RaisingCtx}
        exec(compile(text, fname, "exec"), g)
        out = []
        err = None
        try:
            entry = g["top"] if unset_pair else g["lvl_0"]
            if case.get("conv") == "value":
                entry.asynq().value()
            else:
                entry()
            out.append(("tb-no-error", "the chain did not raise"))
        except Boom as e:
            err = e
            names = [f.name for f in traceback.extract_tb(e.__traceback__)]
        except HarnessError:
            raise
        except BaseException as e:
            out.append(("tb-wrong-error", "chain raised %s: %s" % (type(e).__name__, str(e)[:100])))
        if err is not None:
            user = [n for n in names if re.match(r"^(lvl_\d+|sibling|swallower|side_\d|top|resume)$", n)]
            collapsed = [n for j, n in enumerate(user) if j == 0 or user[j - 1] != n]
            want = (["top"] if unset_pair else []) + ["lvl_%d" % i for i in range(d)]
            if ctx_bottom:
                # the suspended bottom task's own code was not running: the raising frame is the hook
                want = want[:-1] + ["resume"]
            if collapsed != want:
                out.append(("glued-traceback", "traceback of the exception that crossed %d task levels has user frames %r, expected one per level in call order %r (levels %s, swallow_at %s)"
                            % (d, collapsed, want, [(l.get("how"), l.get("catch")) for l in levels], swallow_at)))
            try:
                txt = adebug.format_error(err)
                if not isinstance(txt, str) or Boom.__name__ not in txt:
                    out.append(("format-error", "format_error() of the escaped exception returned %r" % (txt if not isinstance(txt, str) else txt[-80:])))
                fe2 = adebug.format_error(Boom("no traceback at all"))
                if not isinstance(fe2, str):
                    out.append(("format-error", "format_error() of an exception without traceback returned %r" % (fe2,)))
                if adebug.format_error(None) is not None:
                    out.append(("format-error", "format_error(None) is not None"))
            except Exception as e2:
                out.append(("format-error", "format_error raised %s: %s" % (type(e2).__name__, str(e2)[:100])))
        # async generators in every state must be printable
        try:
            from asynq.generator import async_generator, Value, list_of_generator

            @async_generator()
            def ag():
                yield item()
                yield Value(1)
                yield item()
            ag1 = ag()
            states = [repr(ag1), str(ag1)]
            t = next(ag1)
            states.append(repr(ag1))
            t.value()
            states.append(repr(ag1))
            list_of_generator(ag1)
            states.append(repr(ag1))
        except HarnessError:
            raise
        except BaseException as e2:
            out.append(("total", "repr()/str() of an async generator raised %s: %s" % (type(e2).__name__, str(e2)[:100])))
        # a task created by a task that has already finished when it runs (a "factory" task returns
        # the child for somebody else to await): the stack must still list every creator
        try:
            fstack = {}
            fsrc = (
                "@A.asynq()\ndef fac_leaf():\n    yield item()\n    fstack['s'] = adebug.format_asynq_stack()\n    return 1\n\n"
                "@A.asynq()\ndef fac_maker():\n    t = fac_leaf.asynq()\n    return (t,)\n\n"
                "@A.asynq()\ndef fac_top():\n    (t,) = yield fac_maker.asynq()\n    v = yield t\n    return v\n")
            fname2 = "<simq-c18-factory>"
            linecache.cache[fname2] = (len(fsrc), None, fsrc.splitlines(True), fname2)
            g2 = {"A": A, "item": item, "fstack": fstack, "adebug": adebug}
            exec(compile(fsrc, fname2, "exec"), g2)
            g2["fac_top"]()
            names2 = []
            for entry in fstack.get("s") or []:
                m = re.search(r"fac_(top|maker|leaf)", entry)
                names2.append(m.group(0) if m else entry[:30])
            if names2 != ["fac_top", "fac_maker", "fac_leaf"]:
                out.append(("asynq-stack", "format_asynq_stack() inside a task whose creator has already finished listed %r, expected ['fac_top', 'fac_maker', 'fac_leaf']" % (names2,)))
            linecache.cache.pop(fname2, None)
        except HarnessError:
            raise
        except BaseException as e3:
            out.append(("asynq-stack", "factory scenario raised %s: %s" % (type(e3).__name__, str(e3)[:100])))
        st = stacks.get(stack_at)
        if st is not None and not out:
            got = []
            if unset_pair and st and "top" in st[0]:
                st = st[1:]  # (the entry of the extra top-level task)
            for entry in st:
                m = re.search(r"lvl_(\d+)", entry)
                got.append("lvl_%s" % m.group(1) if m else entry[:30])
            want = ["lvl_%d" % i for i in range(stack_at + 1)]
            # a level written as a plain (non-generator) function runs inside asynq's own wrapper
            # generator: its entry names that wrapper frame, which is accepted
            for i in range(min(len(got), len(want))):
                if got[i] != want[i] and "yield" not in src[2 + i] and ("_fn_wrapper" in st[i] or "decorators" in st[i]):
                    got[i] = want[i]
            if got != want:
                out.append(("asynq-stack", "format_asynq_stack() inside lvl_%d listed %r, expected the creator chain %r" % (stack_at, got, want)))
        elif st is None and err is not None and not out and int(levels[stack_at].get("pre", 0)) == 0 and stack_at < d:
            pass
        linecache.cache.pop(fname, None)
        B.teardown()
        real.reset_world()
        sig = "tb:" + repr(case)
        return {"violations": out[:3], "stats": {"events": len(B.trace), "flushes": len(B.flushes),
                                                 "probes": {"kind:tb": 1, "tb_depth_ge_8": 1 if d >= 8 else 0, "tb_swallowed_first": 1 if swallow_at is not None else 0,
                                                            "tb_catch_reraise": 1 if any(l.get("catch") for l in levels[:d - 1]) else 0,
                                                            "asynq_stack_checked": 1 if st is not None else 0}},
                "sig": sig, "nontrivial": True, "digest": sig}


PROP = C18()
