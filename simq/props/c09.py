"""C09: all ways of calling an async function agree, for every kind of callable.

Mostly a finite cross product (decorator kind x binding x receiver x argument spelling x body
kind), enumerated by index and sampled by seed; what the simulator contributes is that every cell
is exercised inside simulated computations: the yielded convention runs next to competing tasks
blocked on other batch kinds under seeded flush orders, with batch-blocking and raising bodies,
and after a seeded history of earlier attribute look-ups through other receivers."""
from .. import real, gen
from ..prog import SimError, SimBaseError, HarnessError

A = real.A
from asynq import tools as T  # noqa: E402
from asynq.decorators import (make_async_decorator, get_async_fn, get_async_or_sync_fn, is_async_fn,  # noqa: E402
                              is_pure_async_fn, has_async_fn, async_call)

DECOS = ["asynq", "pure", "proxy", "proxy_syncpair", "syncpair", "made", "made_pure", "dedup", "dedup_syncpair", "aretry", "alru", "percache"]
BINDINGS = ["function", "method", "classmethod", "staticmethod"]
RECEIVERS = ["inst", "subinst", "falsyinst", "cls", "subcls", "cls_explicit_self"]
SPELL = ["pos", "kw", "default", "mixed"]
BODIES = ["plain", "generator", "blocking", "raising", "plain_result", "gen_result", "raising_base"]


def valid(deco, binding, receiver):
    if deco == "made_pure" and binding not in ("function", "staticmethod"):
        return False
    if deco == "proxy_syncpair" and binding == "staticmethod":
        return False
    if deco == "dedup_syncpair" and binding not in ("function", "method"):
        return False
    if binding == "function":
        return receiver == "inst" and deco != "percache"
    if deco in ("aretry", "alru") and binding != "method":
        return False
    if deco == "percache" and binding != "method":
        return False
    if binding == "method":
        return receiver in ("inst", "subinst", "falsyinst", "cls_explicit_self")
    if binding == "classmethod":
        return receiver in ("inst", "subinst", "cls", "subcls")
    if binding == "staticmethod":
        return receiver in ("inst", "cls", "subcls")
    return False


CELLS = [(d, b, r) for d in DECOS for b in BINDINGS for r in RECEIVERS if valid(d, b, r)]


class C09(object):
    id = "C09"

    def shrink_budget(self, tier):
        return (200, 20.0)

    def gen(self, rng, tier, k):
        d, b, r = CELLS[k % len(CELLS)]
        return {"deco": d, "binding": b, "receiver": r, "spell": rng.choice(SPELL), "body": rng.choice(BODIES),
                "a": rng.randint(0, 5), "b": rng.choice([0, 0, 3]), "c": rng.choice([0, 0, 4]),
                "prelookups": [rng.choice(RECEIVERS) for _ in range(rng.randint(0, 3))],
                "competitors": rng.randint(0, 2), "prio": gen.gen_prio(rng, 3), "order": rng.sample(["sync", "value", "yield", "async_call", "sync_in_task"], 5)}

    def sample(self, case, r):
        return case

    def run(self, case, build):
        real.reset_world()
        spec = {"templates": [{"kind": "fn", "steps": []}], "root": {"tmpl": 0}, "kinds": 3, "svs": 1, "faults": {}, "prio": case.get("prio", {})}
        B = real.RealBackend(spec, ())
        B.setup()
        out = []
        log = []
        nitem = [0]
        deco = case.get("deco", "asynq")
        binding = case.get("binding", "function")
        body_kind = case.get("body", "plain")
        if not valid(deco, binding, case.get("receiver", "inst")):
            return {"violations": [], "stats": {}, "sig": "invalid", "nontrivial": False, "digest": "invalid"}

        def item(k):
            nitem[0] += 1
            return real.SimItem(B.current[k % 3], "i%d" % nitem[0], "k", B)

        raising = body_kind in ("raising", "raising_base")

        def impl_plain(tag, a, b, c):
            log.append(("body", tag, a, b, c))
            if body_kind == "plain_result":
                A.result(("body", tag, a, b, c))  # the other way of returning a value
            return ("body", tag, a, b, c)

        def impl_gen(tag, a, b, c):
            log.append(("body", tag, a, b, c))
            if body_kind == "blocking":
                yield item(0)
            else:
                yield A.ConstFuture(1)
            if body_kind == "raising":
                raise SimError("body-raises:%r" % ((tag, a, b, c),))
            if body_kind == "raising_base":
                raise SimBaseError("body-raises:%r" % ((tag, a, b, c),))
            if body_kind == "gen_result":
                A.result(("body", tag, a, b, c))
                raise HarnessError("result() returned")
            return ("body", tag, a, b, c)

        def sync_impl(tag, a, b, c):
            log.append(("sync_fn", tag, a, b, c))
            return ("sync_fn", tag, a, b, c)
        gen_body = body_kind in ("generator", "blocking", "raising", "raising_base", "gen_result")

        # -- the four raw shapes of the decorated function ---------------------------------------
        def mk(kind_tag, first, twin=False):
            """first: None | 'self' | 'cls' -> a plain python function of the right shape.
            twin=True: a second function from the same factory (same qualified name), whose
            results carry a "twin" mark - it must never be confused with the first."""
            tagof = {None: lambda x: "fn", "self": lambda x: x.tag, "cls": lambda x: x.__name__}[first]
            if twin:
                base_tagof = tagof
                tagof = lambda x: "twin:" + base_tagof(x)
            if first is None:
                fn_tag = "twin:fn" if twin else "fn"
                if gen_body:
                    def f(a, b=0, *, c=0):
                        return (yield from impl_gen(fn_tag, a, b, c))
                else:
                    def f(a, b=0, *, c=0):
                        return impl_plain(fn_tag, a, b, c)

                def s(a, b=0, *, c=0):
                    return sync_impl(fn_tag, a, b, c)
            else:
                if gen_body:
                    def f(x, a, b=0, *, c=0):
                        return (yield from impl_gen(tagof(x), a, b, c))
                else:
                    def f(x, a, b=0, *, c=0):
                        return impl_plain(tagof(x), a, b, c)

                def s(x, a, b=0, *, c=0):
                    return sync_impl(tagof(x), a, b, c)
            return f, s

        def decorate(raw, sync_raw, wrap):
            """wrap: None | classmethod | staticmethod, applied under the asynq decorator."""
            inner = wrap(raw) if wrap else raw
            if deco == "asynq":
                return A.asynq()(inner)
            if deco == "pure":
                return A.asynq(pure=True)(inner)
            if deco == "syncpair":
                return A.asynq(sync_fn=(wrap(sync_raw) if wrap else sync_raw))(inner)
            if deco == "proxy_syncpair":
                target = A.asynq()(raw)
                if wrap is staticmethod or wrap is None and binding == "function":
                    def p2(a, b=0, *, c=0):
                        return target.asynq(a, b, c=c)
                else:
                    def p2(x, a, b=0, *, c=0):
                        return target.asynq(x, a, b, c=c)
                # sync_fn is a plain function: the binder of the proxy pair supplies self / cls
                return A.async_proxy(sync_fn=sync_raw)(wrap(p2) if wrap else p2)
            if deco == "dedup_syncpair":
                return T.deduplicate()(A.asynq(sync_fn=(wrap(sync_raw) if wrap else sync_raw))(inner))
            if deco == "proxy":
                target = A.asynq()(raw)

                if wrap is staticmethod or wrap is None and binding == "function":
                    def p(a, b=0, *, c=0):
                        return target.asynq(a, b, c=c)
                else:
                    def p(x, a, b=0, *, c=0):
                        return target.asynq(x, a, b, c=c)
                return A.async_proxy()(wrap(p) if wrap else p)
            if deco == "made_pure":
                pbase = A.asynq(pure=True)(inner)

                @A.asynq(pure=True)
                def wrapper_fn2(*args, **kwargs):
                    v = yield pbase(*args, **kwargs)
                    return ("wrapped", v)
                return make_async_decorator(pbase, wrapper_fn2, "made_pure")
            base = A.asynq()(inner)
            if deco == "made":
                @A.asynq(pure=True)
                def wrapper_fn(*args, **kwargs):
                    v = yield base.asynq(*args, **kwargs)
                    return ("wrapped", v)
                return make_async_decorator(base, wrapper_fn, "made")
            if deco == "dedup":
                return T.deduplicate()(base)
            if deco == "aretry":
                return T.aretry(KeyError, max_tries=2, sleep=0)(base)
            if deco == "alru":
                return T.alru_cache(maxsize=8)(base)
            if deco == "percache":
                return T.acached_per_instance()(base)
            raise HarnessError(deco)

        class Falsy(object):
            pass

        fraw, sraw = mk("fn", None)
        mraw, msraw = mk("m", "self")
        craw, csraw = mk("c", "cls")

        ns = {"tag": "base"}
        if binding == "method":
            ns["target"] = decorate(mraw, msraw, None)
        elif binding == "classmethod":
            ns["target"] = decorate(craw, csraw, classmethod)
        elif binding == "staticmethod":
            ns["target"] = decorate(fraw, sraw, staticmethod)
        Base = type("Base", (object,), ns)
        Sub = type("Sub", (Base,), {"tag": "sub"})
        FalsySub = type("FalsySub", (Base,), {"tag": "falsy", "__len__": lambda self: 0})
        inst, subinst, falsy = Base(), Sub(), FalsySub()
        func = decorate(fraw, sraw, None) if binding == "function" else None
        # a twin callable from the same factory (same module and qualified name) for the
        # conventions that run next to other tasks
        twin_fn = None
        if deco in ("dedup", "dedup_syncpair", "asynq", "alru", "aretry") and binding in ("function", "staticmethod"):
            tf, ts = mk("fn", None, twin=True)
            twin_fn = decorate(tf, ts, None)

        def lookup(receiver):
            """-> (callable, leading explicit args, expected bound tag) or None if not applicable."""
            if binding == "function":
                return func, (), "fn"
            if not valid(deco, binding, receiver):
                return None
            if binding == "method":
                if receiver == "cls_explicit_self":
                    return Base.target, (inst,), "base"
                o = {"inst": inst, "subinst": subinst, "falsyinst": falsy}[receiver]
                return o.target, (), o.tag
            if binding == "classmethod":
                o = {"inst": inst, "subinst": subinst, "cls": Base, "subcls": Sub}[receiver]
                return o.target, (), ("Sub" if receiver in ("subinst", "subcls") else "Base")
            o = {"inst": inst, "cls": Base, "subcls": Sub}[receiver]
            return o.target, (), "fn"

        # a seeded history of earlier look-ups through other receivers (binding caches, ...)
        for r in case.get("prelookups", []):
            try:
                lookup(r)
            except Exception:
                pass
        x, lead, tag = lookup(case.get("receiver", "inst"))
        a, b, c = case.get("a", 0), case.get("b", 0), case.get("c", 0)
        sp = case.get("spell", "pos")
        if sp == "pos":
            args, kw = (a, b), {"c": c}
        elif sp == "kw":
            args, kw = (), {"a": a, "b": b, "c": c}
        elif sp == "default":
            args, kw = (a,), {}
            b, c = 0, 0
        else:
            args, kw = (a,), {"b": b}
            c = 0
        args = tuple(lead) + args
        body_exp = ("body", tag, a, b, c)
        if raising:
            exp_async = ("E", "body-raises:%r" % ((tag, a, b, c),))
        elif deco in ("made", "made_pure"):
            exp_async = ("V", ("wrapped", body_exp))
        else:
            exp_async = ("V", body_exp)
        exp_sync = ("V", ("sync_fn", tag, a, b, c)) if deco in ("syncpair", "proxy_syncpair", "dedup_syncpair") else exp_async
        pure = deco == "pure"
        ncomp = int(case.get("competitors", 0))

        def outcome(thunk):
            try:
                return ("V", thunk())
            except (SimError, SimBaseError) as e:
                return ("E", e.tag)
            except HarnessError:
                raise
            except BaseException as e:
                return ("X", "%s: %s" % (type(e).__name__, str(e)[:120]))

        seen_at_yield = []

        def in_task(make_future, sync_call=False):
            @A.asynq()
            def competitor(i):
                v = yield item(1 + i)
                if i:
                    v = yield item(0)
                return v

            @A.asynq()
            def caller():
                if sync_call:
                    # the synchronous call, made by a running task (after it was suspended once)
                    if ncomp:
                        yield item(2)
                    v = make_future()
                    return ("via-caller", v)  # (the caller goes on after the call)
                try:
                    return (yield make_future())
                except (SimError, SimBaseError) as e:
                    seen_at_yield.append(e.tag)  # a failure arrives at the yield, where it can be handled
                    raise

            @A.asynq()
            def twin_caller():
                # the same arguments go to the twin at the same time; each must run its own body
                try:
                    return (yield twin_fn.asynq(*args[len(lead):], **kw))
                except (SimError, SimBaseError) as e:
                    return ("E", e.tag)

            @A.asynq()
            def root():
                extra = [twin_caller.asynq()] if twin_fn is not None else []
                res = yield extra + [caller.asynq()] + [competitor.asynq(i) for i in range(ncomp)]
                if extra and not raising and res[0] != ("body", "twin:fn", a, b, c):
                    out.append(("same-body", "%s %s: a second function from the same factory, called with the same arguments at the same time, returned %r" % (deco, binding, res[0])))
                return res[len(extra)]
            return root()
        results = {}
        for conv in case.get("order", ["sync", "value", "yield", "async_call"]):
            del log[:]
            if conv == "sync":
                if pure:
                    got = outcome(lambda: x(*args, **kw).value())
                else:
                    got = outcome(lambda: x(*args, **kw))
                exp = exp_sync
            elif conv == "value":
                if pure:
                    continue
                got = outcome(lambda: x.asynq(*args, **kw).value())
                exp = exp_async
            elif conv == "yield":
                got = outcome(lambda: in_task((lambda: x(*args, **kw)) if pure else (lambda: x.asynq(*args, **kw))))
                exp = exp_async
            elif conv == "sync_in_task":
                if pure:
                    got = outcome(lambda: in_task(lambda: x(*args, **kw).value(), sync_call=True))
                else:
                    got = outcome(lambda: in_task(lambda: x(*args, **kw), sync_call=True))
                if got[0] == "V" and isinstance(got[1], tuple) and got[1][:1] == ("via-caller",):
                    got = ("V", got[1][1])
                elif got[0] == "V":
                    got = ("V", ("caller-did-not-continue", got[1]))
                exp = exp_sync
            else:
                got = outcome(lambda: in_task(lambda: async_call.asynq(x, *args, **kw)))
                exp = exp_async
            if conv in ("yield", "async_call") and raising and got == exp and len(seen_at_yield) != 1:
                out.append(("convention", "%s %s, %s: the failure of the callee was not raised at the caller's yield (seen there %d times)" % (deco, binding, conv, len(seen_at_yield))))
                break
            del seen_at_yield[:]
            results[conv] = got
            if got != exp:
                out.append(("convention", "%s %s via %s, %s(%s%s): gave %r, expected %r" % (deco, binding, case.get("receiver"), conv, args[len(lead):], kw, got, exp)))
                break
            want_log = ("sync_fn", tag, a, b, c) if (conv in ("sync", "sync_in_task") and deco in ("syncpair", "proxy_syncpair", "dedup_syncpair")) else ("body", tag, a, b, c)
            own_log = [e for e in log if not str(e[1]).startswith("twin:")]
            cached = deco in ("alru", "percache") and not own_log and not raising
            if not cached and (not own_log or own_log[0] != want_log or (len(own_log) != 1 and deco not in ("aretry",))):
                out.append(("same-body", "%s %s via %s, %s: ran %r, expected exactly %r" % (deco, binding, case.get("receiver"), conv, log, want_log)))
                break
        if not out and deco == "dedup" and not raising:
            del log[:]
            try:
                pending = x.asynq(*args, **kw)      # created, not awaited yet: in flight
                got_sync = outcome(lambda: x(*args, **kw))
                n_after_sync = len([e for e in log if e[0] == "body"])
                got_pending = outcome(lambda: pending.value())
                n_total = len([e for e in log if e[0] == "body"])
                if got_sync != exp_async or got_pending != exp_async:
                    out.append(("convention", "dedup %s: sync call next to an in-flight task gave %r / the in-flight task %r, expected %r" % (binding, got_sync, got_pending, exp_async)))
                elif n_after_sync != 1 or n_total != 2:
                    out.append(("same-body", "dedup %s: the synchronous call must run the body itself (only .asynq() calls share the in-flight task): body runs after the sync call %d, in total %d (expected 1 and 2)" % (binding, n_after_sync, n_total)))
            except HarnessError:
                raise
            except BaseException as e:
                out.append(("convention", "dedup %s: sync call next to an in-flight task raised %s: %s" % (binding, type(e).__name__, str(e)[:100])))
        # classification helpers must be consistent with how the callable can be called
        if not out:
            try:
                h_async, h_pure, h_has = bool(is_async_fn(x)), bool(is_pure_async_fn(x)), bool(has_async_fn(x))
                if h_pure != pure or h_has != (not pure) or not h_async:
                    out.append(("classification", "%s %s: is_async_fn=%s is_pure_async_fn=%s has_async_fn=%s" % (deco, binding, h_async, h_pure, h_has)))
                af = get_async_fn(x)
                got = outcome(lambda: af(*args, **kw).value())
                if got != exp_async:
                    out.append(("get-async-fn", "%s %s: get_async_fn(x)(...).value() gave %r, expected %r" % (deco, binding, got, exp_async)))
                afw = get_async_fn(x, wrap_if_none=True)  # the wrap_if_none spelling: x is async already
                got = outcome(lambda: afw(*args, **kw).value())
                if got != exp_async:
                    out.append(("get-async-fn", "%s %s: get_async_fn(x, wrap_if_none=True)(...).value() gave %r, expected %r" % (deco, binding, got, exp_async)))
                aos = get_async_or_sync_fn(x)
                got = outcome(lambda: aos(*args, **kw).value())
                if got != exp_async:
                    out.append(("get-async-fn", "%s %s: get_async_or_sync_fn(x)(...).value() gave %r, expected %r" % (deco, binding, got, exp_async)))

                def plain_sync(*a_, **k_):
                    return "plain"
                if is_async_fn(plain_sync) or has_async_fn(plain_sync) or get_async_fn(plain_sync) is not None \
                        or get_async_or_sync_fn(plain_sync) is not plain_sync \
                        or get_async_fn(plain_sync, wrap_if_none=True)().value() != "plain":
                    out.append(("classification", "helpers misclassify a plain synchronous function"))
            except HarnessError:
                raise
            except BaseException as e:
                out.append(("classification", "helper raised %s: %s" % (type(e).__name__, str(e)[:100])))
        nfl = len(B.flushes)
        B.teardown()
        real.reset_world()
        sig = repr(sorted((k, repr(v)) for k, v in case.items() if k not in ("prio",)))
        cell = "%s/%s/%s" % (deco, binding, case.get("receiver"))
        return {"violations": out[:3], "stats": {"events": len(B.trace), "flushes": nfl, "probes": {"cell:" + cell: 1, "body:" + body_kind: 1}},
                "sig": sig, "nontrivial": True, "digest": sig + "|" + repr(sorted(results.items())) + repr([(f["kind"], f["tokens"]) for f in B.flushes])}


PROP = C09()
