"""C08: active task is the running one; the scheduler is clean after any outcome.

Histories: 2-6 computations back-to-back on the same thread's scheduler (no reset), each an
arbitrary program with fault points of every kind (steps, items, flushes incl. BaseException,
lazy futures, context pause/resume, raising on_computed subscribers, lowered
MAX_TASK_STACK_SIZE).  After each one: active task None, no task left on the scheduler, and a
canary computation on the same scheduler must give the same outcome and the same canonical event
trace as on a fresh scheduler (with the service's still-pending requests carried over or
cancelled, as a real batching service would)."""
import copy
import json
import random
import zlib

from ._prog import ProgProp
from .. import gen, real
from ..prog import HarnessError, errtok

A = real.A


def _canary(rng):
    cfg = gen.swarm(rng, {"p_sync": 0.1, "p_try": 0.05, "p_ctx": 0.1, "p_sv": 0.05, "max_templates": 5, "max_kinds": 3,
                          "p_debug_kinds": 0.0})
    cfg["kinds"] = 3
    spec = gen.gen_program(rng, cfg)
    spec["prio"] = {"policy": "const", "vals": {"0": 3, "1": 2, "2": 1}, "hashes": {}}
    spec["root"]["conv"] = "call"
    return spec


def _ctx_motif(rng):
    """One or two tasks holding 1-3 contexts across several flushes, with pause/resume faults on
    more than one of them (double faults: a resume failure followed by a pause failure while the
    failed task's generator is closed, ...)."""
    nctx = rng.randint(1, 3)
    nitems = rng.randint(2, 3)
    ys = [["y", ["t", [["item", rng.randint(0, 2), rng.randint(0, 5)] for _ in range(rng.randint(1, 2))]]] for _ in range(nitems)]
    body = ys
    for i in range(nctx):
        body = [["with", rng.choice([["ctx"], ["ctx"], ["sv", 0, i + 1], ["attr", i + 1]]), body]]
    templates = [{"kind": "fn", "steps": body}]
    if rng.random() < 0.5:
        templates.insert(0, {"kind": "fn", "steps": [["try", [["y", ["call", 1, []]]], "all", [["y", ["item", 0, 1]]]]]})
    faults = {"items": {}, "flushes": {}, "ctx": {}}
    if nctx >= 2 and rng.random() < 0.5:
        # targeted double fault: when the suspended task is resumed for the k-th time one context's
        # resume() raises, and while the failed task's generator is closed another context's
        # pause() raises too (its k-th pause)
        k = rng.randint(2, min(3, nitems + 1))
        a, b = rng.sample(range(1, nctx + 1), 2)
        faults["ctx"]["#%d" % a] = ["resume", k]
        faults["ctx"]["#%d" % b] = ["pause", k]
    else:
        for i in range(1, nctx + 1):
            if rng.random() < 0.7:
                faults["ctx"]["#%d" % i] = [rng.choice(["resume", "pause"]), rng.randint(1, 4)]
    return {"templates": templates, "root": {"tmpl": 0, "conv": rng.choice(["call", "value", "wrapped"])}, "kinds": 3,
            "svs": 2, "yield_only": True, "reentry": False, "faults": faults, "prio": gen.gen_prio(rng, 3)}


def _overflow_motif(rng):
    """A nested synchronous computation dies of the runaway-recursion guard; the enclosing task
    handles the RuntimeError and goes on with ordinary work - it must finish with its value."""
    width = rng.randint(5, 9)
    limit = rng.randint(3, width - 1)
    pre = [["y", ["item", rng.randint(0, 2), 0]]] if rng.random() < 0.5 else []
    # afterwards the enclosing task goes on with 0-2 further requests (0: it returns in the same step)
    post = [["y", ["item", rng.randint(0, 2), rng.randint(0, 5)]] for _ in range(rng.randint(0, 2))]
    root = pre + [["try", [["s", ["call", 1, []], rng.choice(["call", "value"])]], "all", []]] + post
    wide = [["y", [rng.choice(["t", "l"]), [["call", 2, []] for _ in range(width)]]]]
    leaf = [["y", ["item", rng.randint(0, 2), 1]]] if rng.random() < 0.7 else []
    templates = [{"kind": "fn", "steps": root}, {"kind": "fn", "steps": wide}, {"kind": "fn", "steps": leaf}]
    if rng.random() < 0.4:
        # the handler lives one level further out
        templates = [{"kind": "fn", "steps": [["y", ["call", 1, []]]]}] + [
            {"kind": t["kind"], "steps": _shift_calls(t["steps"])} for t in templates]
    return {"templates": templates, "root": {"tmpl": 0, "conv": rng.choice(["call", "value"])}, "kinds": 3, "svs": 2,
            "yield_only": False, "reentry": True, "faults": {"items": {}, "flushes": {}, "ctx": {}}, "prio": gen.gen_prio(rng, 3),
            "max_stack": limit + (1 if len(templates) == 4 else 0), "expect": "value"}


def _shift_calls(steps):
    import copy
    steps = copy.deepcopy(steps)

    def walk(x):
        if isinstance(x, list):
            if x and x[0] == "call" and isinstance(x[1], int):
                x[1] += 1
            for c in x:
                walk(c)
    walk(steps)
    return steps


def _ext_reset_motif(rng):
    """A task object built at top level, asynq.scheduler.reset(), then a computation that
    evaluates that task synchronously from inside one of its tasks (and goes on)."""
    def items(m):
        return [["y", ["item", rng.randint(0, 2), rng.randint(0, 5)]] for _ in range(m)]
    use = [["s", ["ref", 0], "value"]] if rng.random() < 0.7 else [["y", ["ref", 0]]]
    root = items(rng.randint(0, 1)) + use + items(rng.randint(0, 2))
    ext = items(rng.randint(0, 2))
    if rng.random() < 0.5:
        ext = ext + [["y", ["call", 2, []]]]
    if rng.random() < 0.4:
        ext = [["with", ["ctx"], ext]]
    templates = [{"kind": "fn", "steps": root}, {"kind": "fn", "steps": ext}, {"kind": "fn", "steps": items(rng.randint(0, 1))}]
    return {"templates": templates, "root": {"tmpl": 0, "conv": rng.choice(["call", "value", "wrapped"])}, "kinds": 3, "svs": 2,
            "yield_only": False, "reentry": True, "faults": {"items": {}, "flushes": {}, "ctx": {}}, "prio": gen.gen_prio(rng, 3),
            "ext_tasks": [1], "reset_after_ext": rng.random() < 0.8}


def _insert_opt_toggle(rng, spec):
    """User code switches a debug option on in the middle of a task step."""
    t = rng.choice(spec["templates"])
    opt = rng.choice(["COLLECT_PERF_STATS", "COLLECT_PERF_STATS", "KEEP_DEPENDENCIES", "DUMP_NEW_TASKS", "ENABLE_COMPLEX_ASSERTIONS"])
    t["steps"].insert(rng.randint(0, len(t["steps"])), ["opt", opt, opt != "ENABLE_COMPLEX_ASSERTIONS"])


class C08(ProgProp):
    id = "C08"
    report = ("C08",)
    cfg = {"p_sync": 0.15, "p_try": 0.12, "p_ctx": 0.15, "p_sv": 0.06, "p_na": 0.04, "p_fault": 0.2, "item_faults": 0.08,
           "flush_faults": 0.1, "base_exc": 0.2, "max_templates": 6, "max_kinds": 3, "flush_reenter": 0.15,
           "p_item_value_sync": 0.15, "p_debug_kinds": 0.0}

    def gen(self, rng, tier, k):
        n = rng.randint(1, 3 if tier == "quick" else 6)
        hist = []
        for i in range(n):
            cfg = gen.swarm(rng, self.base_cfg(tier))
            cfg["kinds"] = 3
            if cfg["p_na"] > 0:
                cfg["p_sync"] = 0.0
            spec = gen.gen_program(rng, cfg)
            f = spec["faults"]
            r1 = rng.random()
            if r1 < 0.08:
                spec = _overflow_motif(rng)
                f = spec["faults"]
                hist.append(spec)
                continue
            if r1 < 0.28:
                spec = _ctx_motif(rng)
                f = spec["faults"]
            elif r1 < 0.34:
                spec = _ext_reset_motif(rng)
                f = spec["faults"]
            elif rng.random() < 0.35:
                for _ in range(rng.randint(1, 2)):
                    f["ctx"]["#%d" % rng.randint(1, 6)] = [rng.choice(["resume", "pause"]), rng.randint(1, 3)]
            if rng.random() < 0.2:
                f["callbacks"] = {"#%d" % rng.randint(1, 8): True}
                d = zlib.crc32(json.dumps(spec["templates"], sort_keys=True).encode())
                if d % 3 == 0:
                    f["callbacks"] = {k_: "base" for k_ in f["callbacks"]}  # a BaseException, not an Exception
            if rng.random() < 0.1:
                f["prio_raises"] = rng.randint(1, 6)
            if rng.random() < 0.1:
                f["before_hook_raises"] = rng.randint(1, 4)
            if rng.random() < 0.15 and len(spec["templates"]) > 1:
                spec["ext_tasks"] = [rng.randint(1, len(spec["templates"]) - 1)]
            if rng.random() < 0.2:
                spec["max_stack"] = rng.randint(3, 40)
            if rng.random() < 0.15:
                spec["options"] = {o: not real.DEFAULT_OPTIONS[o] for o in real.BOOL_OPTIONS if rng.random() < 0.3}
            d2 = zlib.crc32(json.dumps(spec["templates"], sort_keys=True).encode())
            if d2 % 8 == 1:
                _insert_opt_toggle(random.Random(d2), spec)
            hist.append(spec)
        return {"history": hist, "canary": _canary(rng), "persist": [rng.random() < 0.5 for _ in range(n)]}

    def sample(self, case, r):
        return {"computations": len(case["history"]), "persist": case["persist"],
                "first": {"templates": case["history"][0]["templates"][:2], "faults": case["history"][0]["faults"],
                          "max_stack": case["history"][0].get("max_stack")},
                "outcomes": r.get("outcomes")}

    def run(self, case, build):
        from ..worker import merge_stats
        out = []
        stats = {}
        sigs = []
        outcomes = []
        hist = case.get("history") or []
        persist = case.get("persist") or []
        carried = None
        nontrivial = False
        for i, spec in enumerate(hist):
            s = copy.deepcopy(spec)
            s["fresh_scheduler"] = (i == 0)
            B = real.RealBackend(s, ("C08",))
            B.carried = carried
            o = B.run()
            if isinstance(o[1], HarnessError):
                raise o[1]
            otxt = ("V", repr(o[1])) if o[0] == "V" else ("E", errtok(o[1]))
            outcomes.append(otxt)
            for (p, c, m, n) in B.violations:
                if p == "C08":
                    out.append((c, "computation #%d (%s): %s" % (i + 1, otxt[1] if otxt[0] == "E" else "value", m)))
            if o[0] == "E" and getattr(B, "root_computed", False) and B.root_error is None and s["root"].get("conv") != "wrapped" \
                    and not str(getattr(o[1], "tag", "")).startswith("cb:"):
                # (a completion subscriber of the root task that raises is user code failing
                # after the task has completed: its exception is what the caller gets)
                out.append(("internal-error", "computation #%d: the outermost call raised %s although the awaited task completed with a value" % (i + 1, otxt[1])))
            if spec.get("expect") == "value":
                if o[0] != "V":
                    out.append(("handled-overflow", "computation #%d: a nested synchronous computation was stopped by the runaway guard and the enclosing task handled that RuntimeError, yet the computation ended with %s instead of its value" % (i + 1, otxt[1])))
            if o[0] == "E" and isinstance(o[1], A.FutureIsAlreadyComputed):
                out.append(("internal-error", "computation #%d ended with asynq's internal FutureIsAlreadyComputed instead of an exception from a task, future, flush or context" % (i + 1)))
            st = {"events": len(B.trace), "flushes": len(B.flushes), "sim_us": real.simenv.clock.elapsed(),
                  "probes": dict(B.probes), "faults": dict(B.faults_fired), "tasks": len(B.insts), "runs": 1}
            if spec.get("expect") == "value" and B.probes.get("caught", 0) >= 1:
                st["faults"]["runaway_guard_handled_by_enclosing_task"] = 1
            if o[0] == "E":
                st["probes"]["computation_failed"] = 1
                if isinstance(o[1], RuntimeError) and "exceeded maximum" in str(o[1]):
                    st["faults"]["runaway_guard"] = 1
            merge_stats(stats, st)
            if out:
                break
            keep = bool(persist[i]) if i < len(persist) else False
            if keep:
                preload = B.stale_items()
                carried = B.current
                if preload:
                    stats["probes"]["stale_requests_carried"] = stats["probes"].get("stale_requests_carried", 0) + 1
            else:
                B.cancel_stale_batches()
                preload = []
                carried = None
            # canary on the same scheduler
            c1 = copy.deepcopy(case["canary"])
            c1["fresh_scheduler"] = False
            Bc = real.RealBackend(c1, ("C08",))
            Bc.carried = carried
            oc = Bc.run()
            if isinstance(oc[1], HarnessError):
                raise oc[1]
            same = (("V", repr(oc[1])) if oc[0] == "V" else ("E", errtok(oc[1])), Bc.canon_trace())
            for who, oo in (("computation #%d" % (i + 1), o), ("the canary after computation #%d" % (i + 1), oc)):
                e = oo[1]
                if oo[0] == "E" and isinstance(e, (IndexError, KeyError, AttributeError, NameError, UnboundLocalError)):
                    import traceback
                    frames = traceback.extract_tb(e.__traceback__)
                    where = frames[-1].filename if frames else ""
                    if "asynq/" in where and "simq/" not in where:
                        out.append(("internal-error", "%s ended with %s raised inside asynq's own code (%s:%s), not by a task, future, flush or context"
                                    % (who, type(e).__name__, where.rsplit("/", 1)[-1], frames[-1].lineno)))
                    else:
                        raise HarnessError("unexpected %r\n%s" % (e, "".join(traceback.format_exception(type(e), e, e.__traceback__))[-1800:]))
            for (p, c, m, n) in Bc.violations:
                if p == "C08":
                    out.append((c, "canary after computation #%d: %s" % (i + 1, m)))
            Bc.cancel_stale_batches()
            carried = None
            # canary on a fresh scheduler (the thread's scheduler is put back afterwards)
            st_obj = A.scheduler._state
            old = st_obj.current
            c2 = copy.deepcopy(case["canary"])
            c2["fresh_scheduler"] = True
            c2["preload"] = preload
            Bf = real.RealBackend(c2, ())
            of = Bf.run()
            fresh = (("V", repr(of[1])) if of[0] == "V" else ("E", errtok(of[1])), Bf.canon_trace())
            Bf.cancel_stale_batches()
            st_obj.current = old
            if same[0] != fresh[0]:
                out.append(("canary-outcome", "after computation #%d (%s) the next computation gives %r; on a fresh scheduler %r"
                            % (i + 1, otxt[1], same[0], fresh[0])))
            elif same[1] != fresh[1]:
                t0, t1 = fresh[1], same[1]
                j = next((x for x in range(min(len(t0), len(t1))) if t0[x] != t1[x]), min(len(t0), len(t1)))
                out.append(("canary-trace", "after computation #%d (%s) the next computation's event #%d is %r; on a fresh scheduler %r"
                            % (i + 1, otxt[1], j, t1[j] if j < len(t1) else None, t0[j] if j < len(t0) else None)))
            sigs.append(B_digest(B))
            if len(B.flushes) >= 1:
                nontrivial = True
            if out:
                break
        return {"violations": out, "stats": stats, "sigs": ["/".join(sigs)], "nontrivial": nontrivial,
                "digest": "/".join(sigs), "outcomes": outcomes, "outcome": outcomes[-1] if outcomes else None}


def B_digest(B):
    import hashlib
    h = hashlib.blake2b(digest_size=8)
    for e in B.trace:
        h.update(repr(e).encode())
    return h.hexdigest()


PROP = C08()
