"""C12: deduplicate - one in-flight execution per key, shared by all callers.

Seeded client scripts (several concurrent client tasks) call @deduplicate() functions, methods and
static methods with keys spelled positionally / by keyword / by default, hold tasks, await them
later, call dirty(), and block on their own requests in between, under seeded flush orders.  An
online model (normalised key -> in-flight task) judges the identity of every returned task."""
import copy
import zlib

from .. import real, gen
from ..prog import SimError, HarnessError

A = real.A
from asynq.tools import deduplicate  # noqa: E402


class ProbeCtx(A.AsyncContext):
    """A context held by a deduplicated body; each time its suspended task is resumed it asks for
    the same key again - from outside the running body, so it must get the in-flight task."""

    def __init__(self, W, cs, key):
        self.W = W
        self.cs = cs
        self.key = key
        self.n = 0

    def resume(self):
        self.n += 1
        if self.n == 1:
            return  # entry: the body is running
        W = self.W
        m = W.inflight.get(self.key)
        if m is None or m.is_computed():
            return
        fn, _ = W._callable(self.cs[0] % 6, self.cs[1])
        args, kwargs = W._args(self.cs[2], self.cs[3], "pos")
        t = fn.asynq(*args, **kwargs)
        W.probe("call_from_context_resume")
        if t is not m:
            W.out.append(("share-inflight", "a call for key %r made from a context's resume() while the body is suspended did not return the in-flight task" % (self.key,)))
            if isinstance(t, A.AsyncTask) and not any(t is x for x in W.tasks):
                W.tasks.append(t)

    def pause(self):
        pass


class _ClientFailure(Exception):
    pass


class _World(object):
    def __init__(self, case):
        self.case = case
        spec = {"templates": [{"kind": "fn", "steps": []}], "root": {"tmpl": 0}, "kinds": 3, "svs": 1,
                "faults": {}, "prio": case.get("prio", {})}
        self.B = real.RealBackend(spec, ())
        self.B.setup()
        self.out = []
        self.inflight = {}
        self.running = []  # keys whose body is executing right now (stack)
        self.running_tasks = []
        self.body_runs = {}  # id(task) -> count
        self.tasks = []  # every task ever returned (kept alive: ids stay unique)
        self.serial = 0
        self.nitem = 0
        self.probes = {}
        self.results = []
        self.flaky = set()
        self.flaky_calls = 0
        self._make_fns()

    def flaky_provider(self):
        from ..prog import SimBaseError
        self.flaky_calls += 1
        if self.flaky_calls == 1:
            raise SimBaseError("abort")
        return "slow-value"

    def probe(self, k):
        self.probes[k] = self.probes.get(k, 0) + 1

    def item(self, kind, who):
        self.nitem += 1
        return real.SimItem(self.B.current[kind % 3], "%s.i%d" % (who, self.nitem), "k%d" % self.nitem, self.B)

    def _body(self, fnid, inst, a, b, c=0):
        W = self
        key = (fnid, inst, a, b)
        if c != 0:
            W.out.append(("arguments", "body of %r received c=%r" % (key, c)))
        t = A.get_active_task()
        W.body_runs[id(t)] = W.body_runs.get(id(t), 0) + 1
        if W.body_runs[id(t)] > 1:
            W.out.append(("body-once", "body of one task for key %r started %d times" % (key, W.body_runs[id(t)])))
        W.serial += 1
        serial = W.serial
        W.running.append(key)
        W.running_tasks.append(t)
        try:
            sub = None
            depth = W.running.count(key)
            if b == 2 and W.reenter_budget.get(key, 0) > 0:
                # re-entrant call with the same key from inside the running body
                W.reenter_budget[key] -= 1
                sub = W.call("body", [fnid, inst, a, b, "pos"])
                W.probe("reentrant_same_key_call")
            if key in W.flaky:
                # (see abort_first) a slow lazily computed value the body needs; its first
                # evaluation is interrupted
                W.running.pop()
                W.running_tasks.pop()
                try:
                    yield A.Future(W.flaky_provider)
                finally:
                    W.running.append(key)
                    W.running_tasks.append(t)
            nblocks = (a + b) % 3
            probe_ctx = ProbeCtx(W, [fnid, inst if inst is not None else 0, a, b], key) if (W.case.get("probe_ctx") and a == 2) else None
            if probe_ctx is not None:
                probe_ctx.__enter__()
            for i in range(nblocks):
                W.running.pop()
                W.running_tasks.pop()
                try:
                    yield W.item(fnid + i, "b%d" % serial)
                except GeneratorExit:
                    if a == 1:
                        # a body whose clean-up fails when it is closed while suspended
                        raise SimError("body-close-fails")
                    raise
                finally:
                    W.running.append(key)
                    W.running_tasks.append(t)
            if sub is not None and W.case.get("await_reentrant", True):
                W.running.pop()
                W.running_tasks.pop()
                try:
                    yield sub
                finally:
                    W.running.append(key)
                    W.running_tasks.append(t)
            if probe_ctx is not None:
                probe_ctx.__exit__(None, None, None)
                probe_ctx = None
            if a == 3:
                raise SimError("body-fails:%r#%d" % (key, serial))
            return "v:%r#%d" % (key, serial)
        finally:
            W.running.pop()
            W.running_tasks.pop()

    def _make_fns(self):
        W = self

        def user_keygetter(args, kwargs):
            # a user-supplied key getter: keyed by (a, b) however the call is spelled
            a = args[0] if args else kwargs["a"]
            b = args[1] if len(args) > 1 else kwargs.get("b", 0)
            return ("uid", a, b)

        def make_function(fnid):
            # (with keygetter= both module functions produce equal keys for equal arguments;
            # they are different functions and never share a task)
            @deduplicate(keygetter=user_keygetter if W.case.get("custom_keygetter") else None)
            @A.asynq()
            def f(a, b=0, *, c=0):
                return (yield from W._body(fnid, None, a, b, c))
            return f

        def make_class(fnid_m, fnid_s):
            class K(object):
                def __init__(self, n):
                    self.n = n

                @deduplicate()
                @A.asynq()
                def m(self, a, b=0, *, c=0):
                    return (yield from W._body(fnid_m, self.n, a, b, c))

                @deduplicate()
                @A.asynq()
                @staticmethod
                def s(a, b=0, *, c=0):
                    return (yield from W._body(fnid_s, None, a, b, c))
            return K

        self.f = [make_function(0), make_function(1)]
        K1 = make_class(2, 3)
        K2 = make_class(4, 5)
        # the second instance of each class is falsy (an empty container): still a distinct key
        F1 = type("F1", (K1,), {"__len__": lambda self: 0})
        F2 = type("F2", (K2,), {"__len__": lambda self: 0})
        self.objs = {2: [K1(0), F1(1), K1(2)], 4: [K2(0), F2(1)]}
        self.statics = {3: K1, 5: K2}
        self.reenter_budget = {}

    def _callable(self, fnid, inst):
        if fnid in (0, 1):
            return self.f[fnid], None
        if fnid in (2, 4):
            objs = self.objs[fnid]
            o = objs[inst % len(objs)]
            return o.m, o.n
        return self.statics[fnid].s, None

    def _args(self, a, b, form):
        if form == "pos":
            return (a, b), {}
        if form == "kw":
            return (a,), {"b": b}
        if form == "allkw":
            return (), {"a": a, "b": b}
        if form == "default" and b == 0:
            return (a,), {}
        if form == "kwonly":
            return (a, b), {"c": 0}  # the keyword-only parameter spelled out with its default
        if form == "allkw_kwonly":
            return (), {"a": a, "b": b, "c": 0}
        return (a, b), {}

    def call(self, who, cs):
        fnid, inst, a, b, form = cs
        fnid %= 6
        fn, inst_n = self._callable(fnid, inst)
        key = (fnid, inst_n, a, b)
        args, kwargs = self._args(a, b, form)
        m = self.inflight.get(key)
        if m is not None and m.is_computed():
            m = None
            del self.inflight[key]
        inside = m is not None and any(m is x for x in self.running_tasks)
        if who != "body" and b == 2 and key not in self.reenter_budget:
            self.reenter_budget[key] = 1
        t = fn.asynq(*args, **kwargs)
        if not isinstance(t, A.AsyncTask):
            self.out.append(("returns-task", ".asynq() of a deduplicated callable returned %r" % type(t)))
            return t
        known = any(t is x for x in self.tasks)
        if inside and m is not None:
            if t is m:
                self.out.append(("reentrant-fresh", "call from inside the running body of %r returned the running task itself" % (key,)))
            self.probe("call_from_inside_running_body")
        elif m is not None:
            self.probe("shared_inflight")
            if t is not m:
                self.out.append(("share-inflight", "%s: call %r (%s) did not return the in-flight task for its key (in flight: computed=%s)"
                                 % (who, key, form, m.is_computed())))
        else:
            if known:
                other = [k for k, v in self.inflight.items() if v is t]
                self.out.append(("no-cross-share", "%s: call %r returned a task that already exists (in flight for %s)" % (who, key, other)))
            self.inflight[key] = t
            self.probe("new_task")
        if not known:
            self.tasks.append(t)
        return t

    def fail_externally(self, cs):
        """Completes the in-flight task of a key from outside (e.g. a timeout) while it is suspended."""
        fnid, inst, a, b, form = cs
        fnid %= 6
        fn, inst_n = self._callable(fnid, inst)
        key = (fnid, inst_n, a, b)
        m = self.inflight.get(key)
        if m is None or m.is_computed() or any(m is x for x in self.running_tasks) or self.body_runs.get(id(m), 0) == 0:
            return
        self.probe("failed_externally_while_suspended")
        try:
            m.set_error(SimError("external-failure:%r" % (key,)))
        except SimError:
            self.probe("body_close_failed")
        if m.is_computed():
            self.inflight.pop(key, None)

    def dirty(self, cs):
        fnid, inst, a, b, form = cs
        fnid %= 6
        fn, inst_n = self._callable(fnid, inst)
        key = (fnid, inst_n, a, b)
        if key in self.running:
            return  # keep the model unambiguous: no dirty() from a point where the key's body runs
        args, kwargs = self._args(a, b, form)
        fn.dirty(*args, **kwargs)
        self.inflight.pop(key, None)
        self.probe("dirty")


class C12(object):
    id = "C12"

    def shrink_budget(self, tier):
        return (300, 25.0)

    def gen(self, rng, tier, k):
        nclients = rng.randint(1, 3)
        keyspace = [(rng.randint(0, 5), rng.randint(0, 2), rng.choice([0, 1, 2, 3, 1, 2]), rng.choice([0, 0, 1, 2]))
                    for _ in range(rng.randint(1, 3))]

        def cs():
            if rng.random() < 0.8:
                f, i, a, b = rng.choice(keyspace)
            else:
                f, i, a, b = rng.randint(0, 5), rng.randint(0, 2), rng.randint(0, 3), rng.randint(0, 2)
            return [f, i, a, b, rng.choice(["pos", "kw", "allkw", "default", "kwonly", "allkw_kwonly"])]

        clients = []
        for _ in range(nclients):
            script = []
            for _ in range(rng.randint(1, 6)):
                r = rng.random()
                if r < 0.4:
                    script.append(["y", [cs() for _ in range(rng.randint(1, 3))]])
                elif r < 0.55:
                    script.append(["c", cs()])
                elif r < 0.65:
                    script.append(["yh"])
                elif r < 0.74:
                    script.append(["d", cs()])
                elif r < 0.8:
                    script.append(["x", cs()])
                else:
                    script.append(["b", rng.randint(0, 2)])
            if rng.random() < 0.12:
                # the client fails for good (its held calls stay in flight; others may ask for them)
                script.insert(rng.randint(1, len(script)), ["f"])
            clients.append(script)
        if rng.random() < 0.04:
            # very wide fan-out: hundreds of different keys in flight at once, then the first again
            f, i, _, b = rng.choice(keyspace)
            clients[rng.randrange(len(clients))].insert(0, ["w", rng.choice([40, 257, 300, 520]), [f, i, 10, b, "pos"]])
        case = {"clients": clients, "prio": gen.gen_prio(rng, 3), "await_reentrant": rng.random() < 0.7,
                "probe_ctx": rng.random() < 0.4}
        dg = zlib.crc32(repr(clients).encode())
        case["custom_keygetter"] = dg % 3 == 0
        if (dg // 11) % 8 == 0:
            case["abort_first"] = [(dg // 88) % 2, 0, 0, 1 + (dg // 176) % 2 * 0, "pos"]
            clients[0].insert(0, ["y", [list(case["abort_first"])]])
        if (dg // 7) % 10 == 0:
            case["threads_seq"] = [0, (dg // 70) % 2]
        if case["custom_keygetter"] and dg % 2 == 0:
            # the two module functions asked for the same arguments in one yield
            a, b = (dg // 6) % 3, (dg // 18) % 2
            clients[0].insert(0, ["y", [[0, 0, a, b, "pos"], [1, 0, a, b, "kw"]]])
        return case

    def sample(self, case, r):
        return case

    def run(self, case, build):
        real.reset_world()
        W = _World(case)
        out = W.out

        def client(ci, script):
            held = []
            got = []
            for st in script:
                op = st[0]
                try:
                    if op == "y":
                        ts = [W.call("client%d" % ci, c) for c in st[1]]
                        try:
                            vals = yield ts
                        except SimError as e:
                            vals = ("E", e.tag)
                        got.append(vals)
                    elif op == "c":
                        held.append(W.call("client%d" % ci, st[1]))
                    elif op == "yh":
                        hs, held = held, []
                        for h in hs:
                            try:
                                got.append((yield h))
                            except SimError as e:
                                got.append(("E", e.tag))
                    elif op == "d":
                        W.dirty(st[1])
                    elif op == "x":
                        W.fail_externally(st[1])
                    elif op == "b":
                        yield W.item(st[1], "c%d" % ci)
                    elif op == "f":
                        raise _ClientFailure("client%d" % ci)
                    elif op == "w":
                        f, i, a0, b, form = st[2]
                        ts = [W.call("client%d" % ci, [f, i, a0 + j, b, form]) for j in range(st[1])]
                        again = W.call("client%d" % ci, [f, i, a0, b, "kw"])
                        W.probe("wide_fanout_%d" % (st[1] // 100 * 100))
                        try:
                            vals = yield ts + [again]
                        except SimError as e:
                            vals = ("E", e.tag)
                        got.append(len(vals))
                except SimError as e:
                    got.append(("E", e.tag))
            return got

        clients = []
        for ci, script in enumerate(case.get("clients", [])):
            inner = A.asynq()(lambda ci=ci, script=script: (yield from client(ci, script)))

            def guarded(inner=inner):
                try:
                    return (yield inner.asynq())
                except _ClientFailure:
                    W.probe("client_failed")
                    return "client-failed"
            clients.append(A.asynq()(guarded))

        @A.asynq()
        def root():
            return (yield [c.asynq() for c in clients])

        if case.get("threads_seq"):
            # the key includes the thread: a call left in flight by a thread that has ended is not
            # handed to a thread started later (which may well get the same thread identifier)
            import threading
            box = {}
            a0, b0 = case["threads_seq"]

            def first():
                box["a"] = W.f[0].asynq(a0, b0)  # created, never awaited: stays in flight
                W.tasks.append(box["a"])

            def second():
                t = W.f[0].asynq(a0, b0)
                W.tasks.append(t)  # kept alive: task ids stay unique for the body-run bookkeeping
                box["same"] = t is box["a"]
                try:
                    box["val"] = t.value()
                except SimError as e:
                    box["val"] = e.tag
            for fn_ in (first, second):
                th = threading.Thread(target=fn_)
                th.start()
                th.join()
            W.probe("sequential_threads")
            if box.get("same"):
                out.append(("thread-scope", "a thread started after another had ended received that thread's in-flight task for key %r" % ((a0, b0),)))
        if case.get("abort_first"):
            # an earlier computation on this thread is aborted by a BaseException that escapes the
            # scheduler (a KeyboardInterrupt-like error in a lazily computed future) while a
            # deduplicated call is in flight; the call stays in flight and is shared - and
            # completed - by whoever asks for that key next
            from ..prog import SimBaseError
            cs0 = case["abort_first"]

            fn0, inst0 = W._callable(cs0[0] % 6, cs0[1])
            W.flaky.add((cs0[0] % 6, inst0, cs0[2], cs0[3]))

            @A.asynq()
            def aborted():
                t = W.call("aborted", cs0)
                return (yield t)
            try:
                aborted()
                out.append(("unexpected", "the aborted computation did not raise"))
            except SimBaseError:
                W.probe("computation_aborted_with_call_in_flight")
        try:
            res = root()
        except HarnessError:
            raise
        except BaseException as e:
            out.append(("unexpected", "client computation raised %s: %s" % (type(e).__name__, str(e)[:150])))
            res = None
        # every awaited task's body ran exactly once; all sharers saw one outcome (same object)
        for t in W.tasks:
            n = W.body_runs.get(id(t), 0)
            if n > 1:
                out.append(("body-once", "a deduplicated task's body ran %d times" % n))
        nfl = len(W.B.flushes)
        W.B.teardown()
        real.reset_world()
        sig = repr(case.get("clients"))
        return {"violations": out[:4], "stats": {"events": len(W.B.trace), "flushes": nfl, "probes": W.probes},
                "sig": sig, "nontrivial": W.probes.get("shared_inflight", 0) >= 1, "digest": sig + repr(res)}


PROP = C12()
