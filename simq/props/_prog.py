"""Base for the properties decided by program simulation (C01-C08, C20)."""
import copy

from .. import gen, progsim


class ProgProp(object):
    id = "C00"
    report = ()
    monitors = ("C02", "C03", "C04", "C05", "C06", "C07", "C08")
    cfg = {}
    variants_quick = 3
    variants_thorough = 8
    staged = None  # None: staged model iff the program is yield-only
    cross_check = True

    def shrink_budget(self, tier):
        return (400, 30.0) if tier == "quick" else (1200, 90.0)

    def tune(self, rng, cfg, tier):
        return cfg

    def base_cfg(self, tier):
        cfg = dict(self.cfg)
        if tier == "thorough":
            # deeper bounds: larger programs, wider yields, more kinds
            cfg["max_templates"] = cfg.get("max_templates", gen.BASE["max_templates"]) * 2
            cfg["max_steps"] = cfg.get("max_steps", gen.BASE["max_steps"]) + 2
            cfg["fanout"] = cfg.get("fanout", gen.BASE["fanout"]) + 1
            cfg["max_kinds"] = min(4, cfg.get("max_kinds", gen.BASE["max_kinds"]) + 1)
            cfg["max_instances"] = 1200
            cfg["nest"] = 3
        return cfg

    def gen(self, rng, tier, k):
        cfg = gen.swarm(rng, self.base_cfg(tier))
        cfg = self.tune(rng, cfg, tier)
        spec = gen.gen_program(rng, cfg)
        self.post_spec(rng, spec, cfg, tier)
        nv = self.variants_quick if tier == "quick" else self.variants_thorough
        variants = []
        for i in range(nv):
            variants.append({"conv": ["call", "value", "wrapped"][(i + rng.randint(0, 2)) % 3],
                             "prio": gen.gen_prio(rng, spec["kinds"])})
        return {"spec": spec, "variants": variants}

    def post_spec(self, rng, spec, cfg, tier):
        pass

    def motif_case(self, rng, tier, spec):
        """A hand-shaped (parametrised) program run under the usual calling-convention / flush-order variants."""
        nv = self.variants_quick if tier == "quick" else self.variants_thorough
        return {"spec": spec, "variants": [{"conv": ["call", "value", "wrapped"][i % 3], "prio": spec["prio"] if spec.get("keep_prio") else gen.gen_prio(rng, spec["kinds"])}
                                           for i in range(nv)]}

    def sample(self, case, r):
        s = case["spec"]
        return {"templates": s["templates"][:3], "n_templates": len(s["templates"]), "kinds": s["kinds"],
                "faults": s.get("faults"), "variants": len(case["variants"]), "outcome": r.get("outcome")}

    def use_staged(self, spec):
        if spec.get("cache_hits"):
            return False  # (the pass/flush model assumes every request waits for its flush)
        if self.staged is not None:
            return self.staged and not spec.get("reentry")
        return not spec.get("reentry")

    def run(self, case, build):
        spec = case["spec"]
        out = []
        stats = {}
        sigs = []
        outcomes = []
        nontrivial = False
        variants = case.get("variants") or [{}]
        for v in variants:
            s = copy.deepcopy(spec)
            if "conv" in v:
                s.setdefault("root", {})["conv"] = v["conv"]
            if "prio" in v:
                s["prio"] = v["prio"]
            mons = tuple(x for x in self.report if x != "MODEL") if self.monitors == ProgProp.monitors else self.monitors
            r = progsim.execute(s, mons, staged=self.use_staged(s), check_values=not s.get("ctx_fault"))
            from ..worker import merge_stats
            r["stats"]["runs"] = 1
            merge_stats(stats, r["stats"])
            sigs.append(r["digest"])
            outcomes.append(r["outcome"])
            if r["stats"]["flushes"] >= 1 and r["stats"]["tasks"] >= 2:
                nontrivial = True
            for (p, c, m) in r["violations"]:
                if p in self.report or (p == "MODEL" and ("MODEL" in self.report or self.id == "C01")):
                    out.append((c, m))
            self.extra_checks(s, r, out)
            if out:
                break
        # (a NonAsyncContext around a yield of a shared future fails or not depending on whether
        # that future is already computed, i.e. on the flush order: no cross-schedule agreement)
        if not out and self.cross_check and len(set(outcomes)) > 1 and not spec.get("faults", {}).get("flushes") \
                and not spec.get("ctx_fault") \
                and '"na"' not in repr(spec["templates"]).replace("'", '"'):
            out.append(("variants-disagree", "calling conventions / flush orders disagree: %r" % (sorted(set(outcomes)),)))
        return {"violations": out, "stats": stats, "sigs": sigs, "nontrivial": nontrivial,
                "digest": "/".join(sigs), "outcome": outcomes[0] if outcomes else None}

    def extra_checks(self, spec, r, out):
        pass
