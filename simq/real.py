"""Real backend: executes a program spec on the real asynq scheduler inside the simulated world,
with the in-run monitors (C02..C08) attached.  Stubs: the service behind _flush, the clock.
"""
import gc
import traceback as _traceback
import collections

from . import env as simenv
from . import prog
from .prog import HarnessError, SimError, SimBaseError, Inst, errtok, flatten

A = simenv.install()
import asynq.scheduler as _sched  # noqa: E402
import asynq.batching as _batching  # noqa: E402
import asynq.scoped_value as _sv  # noqa: E402
import asynq.tools as _tools  # noqa: E402
from asynq import debug as _adebug  # noqa: E402

BOOL_OPTIONS = [
    "DUMP_PRE_ERROR_STATE", "DUMP_EXCEPTIONS", "DUMP_SCHEDULE_TASK", "DUMP_CONTINUE_TASK",
    "DUMP_SCHEDULE_BATCH", "DUMP_FLUSH_BATCH", "DUMP_DEPENDENCIES", "DUMP_COMPUTED",
    "DUMP_NEW_TASKS", "DUMP_YIELD_RESULTS", "DUMP_QUEUED_RESULTS", "DUMP_CONTEXTS", "DUMP_SYNC",
    "DUMP_STACK", "DUMP_SCHEDULER_STATE", "DUMP_SYNC_CALLS", "COLLECT_PERF_STATS",
    "ENABLE_COMPLEX_ASSERTIONS", "KEEP_DEPENDENCIES",
]
DEFAULT_OPTIONS = {k: False for k in BOOL_OPTIONS}
DEFAULT_OPTIONS["DUMP_PRE_ERROR_STATE"] = True
DEFAULT_OPTIONS["ENABLE_COMPLEX_ASSERTIONS"] = True
DEFAULT_MAX_STACK = 1000000

# diagnostics formatting is not under test in program sims and is slow
_adebug.enable_traceback_syntax_highlight(False)


def reset_world(reset_scheduler=True):
    """Harness hygiene: canonical process-global state at the start of every run."""
    opts = _adebug.options
    for k, v in DEFAULT_OPTIONS.items():
        setattr(opts, k, v)
    opts.MAX_TASK_STACK_SIZE = DEFAULT_MAX_STACK
    opts.SCHEDULER_STATE_DUMP_INTERVAL = 1
    if reset_scheduler:
        _sched.reset()
    _tools.DeduplicateDecorator.tasks.clear()
    _batching._debug_batch_state.batches.clear()
    A.profiler.reset()
    simenv.capture.reset()
    prog.FALSY[0] = False


class SimItem(A.BatchItemBase):
    def __init__(self, batch, tok, key, B):
        A.BatchItemBase.__init__(self, batch)
        self.tok = tok
        self.key = key
        self.ncomputed = 0
        self.on_computed.subscribe(self._notify)

    def _notify(self, _):
        self.batch.B._item_computed(self)



class SimItemEq(SimItem):
    """A batch item class with value semantics: equal (and equally hashed) when the keys are
    equal - also across batch kinds."""

    def __eq__(self, other):
        return isinstance(other, SimItemEq) and other.key == self.key

    def __ne__(self, other):
        return not self.__eq__(other)

    def __hash__(self):
        return hash(("simitem", self.key))


class SimBatch(A.BatchBase):
    def __init__(self, B, kind, gen):
        A.BatchBase.__init__(self)
        self.B = B
        self.kind = kind
        self.gen = gen
        self.hashval = B.next_hash(kind, gen)
        self.prio = B.batch_prio(kind, gen)
        self.nflush_body = 0
        self.bid = "%d/%d" % (kind, gen)

    def __hash__(self):
        return self.hashval

    def __eq__(self, other):
        return self is other

    def __ne__(self, other):
        return self is not other

    def _try_switch_active_batch(self):
        cur = self.B.current
        if cur[self.kind] is self:
            cur[self.kind] = SimBatch(self.B, self.kind, self.gen + 1)

    def get_priority(self):
        if self.B.spec.get("prio_nonempty"):
            # a user priority that looks at the first request: fine for every batch the scheduler
            # considers for flushing (it never asks an empty batch)
            self.items[0]
        p = self.prio
        if p is None:
            p = A.BatchBase.get_priority(self)
        elif p == "neglen":
            p = (0, -len(self.items))
        elif p[0] == "int":
            p = p[1]
        else:
            p = tuple(p)
        B = self.B
        B.nprio_calls = getattr(B, "nprio_calls", 0) + 1
        pf = B.spec.get("faults", {}).get("prio_raises")
        if pf and B.nprio_calls == pf:
            B.fired("get_priority_raises")
            raise SimError("pr:%d" % pf)
        B.prio_log.append((self, p))
        return p

    def _flush(self):
        self.nflush_body += 1
        self.B.service_flush(self)

    def _cancel(self):
        self.B.ev("cancel", self.bid)



class SimDebugItem(_batching.DebugBatchItem):
    """The built-in DebugBatchItem, with a harness token."""

    def __init__(self, B, tok, kind, key, native=False):
        _batching.DebugBatchItem.__init__(self, ("n%d" if native else "k%d") % kind, "%d:%s" % (kind, key))
        self.tok = tok
        self.key = key
        self.B_ = B
        self.ncomputed = 0
        self.on_computed.subscribe(self._notify)

    def _notify(self, _):
        self.B_._item_computed(self)


class SimDebugBatch(_batching.DebugBatch):
    """The built-in DebugBatch with a seeded hash/priority; flush body is the real one."""

    def __init__(self, B, kind, gen):
        _batching.DebugBatch.__init__(self, "k%d" % kind, gen)
        self.B = B
        self.kind = kind
        self.gen = gen
        self.hashval = B.next_hash(kind, gen)
        self.prio = B.batch_prio(kind, gen)
        self.nflush_body = 0
        self.bid = "%d/%d" % (kind, gen)

    def __hash__(self):
        return self.hashval

    def __eq__(self, other):
        return self is other

    def __ne__(self, other):
        return self is not other

    def _try_switch_active_batch(self):
        st = _batching._debug_batch_state.batches
        if st.get(self.name, None) is self:
            nb = SimDebugBatch(self.B, self.kind, self.gen + 1)
            st[self.name] = nb
            if self.B.current[self.kind] is self:
                self.B.current[self.kind] = nb

    get_priority = SimBatch.get_priority

    def _flush(self):
        self.nflush_body += 1
        B = self.B
        kind = self.kind
        B.kind_flushes[kind] += 1
        toks = [it.tok for it in self.items]
        rec = {"kind": kind, "gen": self.gen, "tokens": toks, "at": len(B.trace),
               "sched": B.sched_flush is self, "depth": len(B.extents)}
        B.flushes.append(rec)
        B.ev("flush", self.bid, tuple(toks))
        if B.current[kind] is self:
            B.viol("C11", "switch-before-flush", "debug batch %s still the active batch while its flush body runs" % self.bid)
        _batching.DebugBatch._flush(self)
        rec["end"] = len(B.trace)


class DerivedSV(A.AsyncScopedValue):
    """A user subclass of AsyncScopedValue."""

    def __init__(self, live_default):
        A.AsyncScopedValue.__init__(self, None)
        self.live_default = live_default
        self.nset = 0

    def get(self):
        v = A.AsyncScopedValue.get(self)
        return self.live_default if v is None else v

    def set(self, value):
        self.nset += 1
        A.AsyncScopedValue.set(self, value)


class _CtxMixin(object):
    """Logging / monitoring shared by all harness contexts."""

    def _init(self, B, cid, owner, kind):
        self.B = B
        self.cid = cid
        self.owner = owner
        self.kind = kind
        self.active = False
        self.entered = False
        self.nres = 0
        self.npause = 0
        self.seq = []

    def _log_resume(self):
        B = self.B
        self.nres += 1
        self.seq.append("r")
        B.ev("resume", self.cid)
        if self.active:
            B.viol("C06", "alternation", "context %s resumed twice without a pause in between" % self.cid)
        self.active = True
        B.active_stack.append(self)
        if getattr(self, "left", False):
            B.viol("C06", "events-after-exit", "context %s resumed after its block was left" % self.cid)
        f = B.ctx_faults.get(self.cid)
        if f and f[0] == "resume" and f[1] == self.nres:
            B.fired("ctx_resume_raises")
            e = (SimBaseError if len(f) > 2 and f[2] == "base" else SimError)("cr:%s#%d" % (self.cid, self.nres))
            B.errors[e.tag] = e
            raise e

    def _log_pause(self):
        B = self.B
        self.npause += 1
        self.seq.append("p")
        B.ev("pause", self.cid)
        if not self.active:
            B.viol("C06", "alternation", "context %s paused while not active (events %s)" % (self.cid, "".join(self.seq[-6:])))
        else:
            st = B.active_stack
            if st and st[-1] is self:
                st.pop()
            else:
                B.viol("C07", "lifo", "context %s paused but the most recently resumed active context is %s"
                       % (self.cid, st[-1].cid if st else None))
                if self in st:
                    st.remove(self)
        self.active = False
        f = B.ctx_faults.get(self.cid)
        if f and f[0] == "pause" and f[1] == self.npause:
            B.fired("ctx_pause_raises")
            e = (SimBaseError if len(f) > 2 and f[2] == "base" else SimError)("cp:%s#%d" % (self.cid, self.npause))
            B.errors[e.tag] = e
            return e  # raised by the caller *after* the context has undone its own effect
        return None


class SimContext(_CtxMixin, A.AsyncContext):
    def __init__(self, B, cid, owner):
        self._init(B, cid, owner, "ctx")

    def resume(self):
        self._log_resume()

    def pause(self):
        e = self._log_pause()
        if e is not None:
            raise e
        # (what pause() returns is nobody's business: some user contexts return self or True)
        return self.B.spec.get("pause_returns")

    def __repr__(self):
        return "SimContext(%s)" % self.cid


class SimOverride(_CtxMixin, _sv._AsyncScopedValueOverrideContext):
    def __init__(self, B, cid, owner, target, value):
        _sv._AsyncScopedValueOverrideContext.__init__(self, target, value)
        self._init(B, cid, owner, "sv")

    def resume(self):
        self._log_resume()
        _sv._AsyncScopedValueOverrideContext.resume(self)

    def pause(self):
        e = self._log_pause()
        _sv._AsyncScopedValueOverrideContext.pause(self)
        if e is not None:
            raise e


class SimAttrOverride(_CtxMixin, _sv._AsyncPropertyOverrideContext):
    def __init__(self, B, cid, owner, target, name, value):
        _sv._AsyncPropertyOverrideContext.__init__(self, target, name, value)
        self._init(B, cid, owner, "attr")

    def resume(self):
        self._log_resume()
        _sv._AsyncPropertyOverrideContext.resume(self)

    def pause(self):
        e = self._log_pause()
        _sv._AsyncPropertyOverrideContext.pause(self)
        if e is not None:
            raise e


class SimTimer(_CtxMixin, _tools.AsyncTimer):
    def __init__(self, B, cid, owner):
        _tools.AsyncTimer.__init__(self)
        self._init(B, cid, owner, "timer")

    def resume(self):
        self._log_resume()
        _tools.AsyncTimer.resume(self)

    def pause(self):
        e = self._log_pause()
        _tools.AsyncTimer.pause(self)
        if e is not None:
            raise e


class SimNonAsync(A.NonAsyncContext):
    def __init__(self, B, cid, owner):
        self.B = B
        self.cid = cid
        self.owner = owner
        self.kind = "na"
        self.active = False
        self.entered = False

    def __repr__(self):
        return "SimNonAsync(%s)" % self.cid


class PlainCtx(object):
    """Delegates to a context object obtained through asynq's public factory
    (AsyncScopedValue.override) - no harness subclass, no event log."""

    def __init__(self, real, cid, owner):
        self.real = real
        self.cid = cid
        self.owner = owner
        self.kind = "na"  # monitors skip it like a NonAsyncContext
        self.active = False
        self.entered = False

    def __enter__(self):
        return self.real.__enter__()

    def __exit__(self, *a):
        return self.real.__exit__(*a)


class AttrTarget(object):
    pass


import threading as _threading  # noqa: E402

CUR = _threading.local()  # the backend whose computation runs on this thread
DD_OWNER = {}  # id(task) -> name of the thread whose body ran it


@_tools.deduplicate()
@A.asynq()
def DD_FN(key):
    """One deduplicated function shared by every thread of the process."""
    B = CUR.B
    t = A.get_active_task()
    DD_OWNER[id(t)] = getattr(_threading.current_thread(), "sim_id", _threading.current_thread().name)
    B.dd_runs += 1
    B.ev("dd_body", key)
    tok = "dd%d.i%d" % (key, B.dd_runs)
    v = yield B.item(None, tok, key % B.spec["kinds"], "dd%d" % key)
    return ("dd", key)


class RealBackend(object):
    def __init__(self, spec, monitors=("C02", "C03", "C04", "C05", "C06", "C07", "C08")):
        self.spec = spec
        self.mon = set(monitors)
        self.trace = []
        self.violations = []
        self.probes = collections.Counter()
        self.faults_fired = collections.Counter()
        self.insts = {}
        self.errors = {}  # tag -> exception instance created by the harness
        self.record = {}  # item token -> ("V", value) | ("E", exception)
        self.flushes = []  # service flush records
        self.items = {}
        self.chain = []
        self.extents = []  # stack of wait extents: [root inst, begin event]
        self.closed_extents = []
        self.prio_log = []
        self.active_stack = []
        self.live_ctx = []
        self.order_groups = []
        self.sched_flush = None
        self.before_after = []
        self.nctx = 0
        self.reads = {}
        self.kind_flushes = [0] * spec["kinds"]
        f = spec.get("faults", {})
        self.item_faults = f.get("items", {})
        self.flush_faults = f.get("flushes", {})
        self.ctx_faults = {k: tuple(v) for k, v in f.get("ctx", {}).items()}
        self.cb_faults = f.get("callbacks", {})
        self.preanswered = {}
        self.yield_only = bool(spec.get("yield_only"))
        pr = spec.get("prio", {})
        self.prio_policy = pr.get("policy", "default")
        self.prio_vals = pr.get("vals", {})
        self.hash_vals = pr.get("hashes", {})
        self.nhash = 0
        self.dd_tasks = []
        self.sched_flush_count = {}
        self.sched_flush_keep = []
        self.dd_runs = 0
        self.carried = None
        self.probe_rate = spec.get("probe_rate", 0)
        self.probe_rng = None
        if self.probe_rate:
            import random as _r
            self.probe_rng = _r.Random(spec.get("probe_seed", 0))
        self.misc_futures = []
        self.outcome_rate = spec.get("outcome_rate", 0)
        self.first_outcome = {}
        if self.outcome_rate and self.probe_rng is None:
            import random as _r
            self.probe_rng = _r.Random(spec.get("probe_seed", 0))
        self.flush_hook = None
        self.root = None
        self.root_exc = None
        self.root_val = None
        self.scheduler = None

    # ---- world --------------------------------------------------------------------------------
    def next_hash(self, kind, gen):
        self.nhash += 1
        v = self.hash_vals.get("%d/%d" % (kind, gen))
        if v is None:
            hs = self.hash_vals.get("order")
            if hs:
                # the low bits decide the slot in a small set's table, i.e. the iteration order
                v = self.nhash * 8 + hs[(kind * 7 + gen) % len(hs)] % 8
            else:
                v = self.nhash
        return v

    def batch_prio(self, kind, gen):
        pol = self.prio_policy
        if pol == "default":
            return None
        if pol == "neglen":
            return "neglen"
        if pol == "const":
            return (self.prio_vals.get(str(kind), 0) + (1 if self.native_kinds else 0), 0)
        if pol == "intconst":
            # get_priority() may return any mutually comparable values, e.g. plain ints
            return ("int", self.prio_vals.get(str(kind), 0))
        if pol == "perbatch":
            vals = self.prio_vals.get("seq", [0])
            return (vals[(kind * 5 + gen) % len(vals)], 0)
        return None

    def setup(self):
        spec = self.spec
        self.threaded = bool(spec.get("threaded"))
        if self.threaded:
            # process-global state (options, clock, dedup table) is set up once by the caller;
            # only this thread's own state is reset here
            _sched.reset()
            _batching._debug_batch_state.batches.clear()
            A.profiler.reset()
        else:
            reset_world(reset_scheduler=spec.get("fresh_scheduler", True))
            prog.FALSY[0] = bool(spec.get("falsy_errors"))
            opts = _adebug.options
            for k, v in spec.get("options", {}).items():
                if k in DEFAULT_OPTIONS:
                    setattr(opts, k, bool(v))
            if spec.get("max_stack"):
                opts.MAX_TASK_STACK_SIZE = int(spec["max_stack"])
            if spec.get("dump_interval") is not None:
                opts.SCHEDULER_STATE_DUMP_INTERVAL = spec["dump_interval"]
            simenv.clock.configure(spec.get("clock", {"seed": 0, "mode": "small"}))
        self.scheduler = A.scheduler.get_scheduler()
        self.scheduler.on_before_batch_flush.subscribe(self._before_flush)
        self.scheduler.on_after_batch_flush.subscribe(self._after_flush)
        self.current = [None] * spec["kinds"]
        carried = self.carried or []
        self.debug_kinds = set(spec.get("debug_kinds", []))
        # kinds served by asynq's own DebugBatch without any harness subclass (a cdef class in the
        # compiled build): no seeded hash, so the priority policy must exclude ties with them
        self.native_kinds = set(spec.get("native_debug_kinds", []))
        for k in range(spec["kinds"]):
            if k in self.native_kinds:
                self.current[k] = None
            elif k in self.debug_kinds:
                b = SimDebugBatch(self, k, 0)
                _batching._debug_batch_state.batches[b.name] = b
                self.current[k] = b
            elif k < len(carried) and carried[k] is not None and not carried[k].is_flushed() and isinstance(carried[k], SimBatch):
                b = carried[k]
                b.B = self
                b.prio = self.batch_prio(k, b.gen)
                for it in b.items:
                    if not it.tok.startswith("s:"):
                        it.tok = "s:" + it.tok
                    self.items[it.tok] = it
                self.current[k] = b
            else:
                self.current[k] = SimBatch(self, k, 0)
        for kind, tok, key in spec.get("preload", []):
            if kind < spec["kinds"]:
                self.items[tok] = SimItem(self.current[kind], tok, key, self)
        nsv = max(1, spec.get("svs", 1))
        if spec.get("sv_subclass"):
            # user subclasses of the public class: the stored value None means "follow the live
            # default" (derived get()), and set() has a side effect (it is counted)
            self.svs = [DerivedSV(("d", i)) for i in range(nsv)]
        else:
            self.svs = [A.AsyncScopedValue(("d", i)) for i in range(nsv)]
        self.attr = AttrTarget()
        self.attr.x = ("d", "attr")
        self.defaults = [("d", i) for i in range(nsv)] + [("d", "attr")]
        self._make_templates()

    def teardown(self):
        try:
            self.scheduler.on_before_batch_flush.unsubscribe(self._before_flush)
            self.scheduler.on_after_batch_flush.unsubscribe(self._after_flush)
        except Exception:
            pass

    def stale_items(self):
        out = []
        for b in self.current:
            if b is not None and not b.is_flushed():
                for it in b.items:
                    out.append([b.kind, it.tok if it.tok.startswith("s:") else "s:" + it.tok, it.key])
        return out

    def canon_trace(self):
        """Trace with batch ids replaced by order of first appearance (comparable across services)."""
        ids = {}
        out = []
        for e in self.trace:
            if e[0] in ("item", "before", "after", "flush", "cancel"):
                e = list(e)
                i = 2 if e[0] == "item" else 1
                e[i] = ids.setdefault(e[i], len(ids))
                e = tuple(e)
            out.append(e)
        return out

    def cancel_stale_batches(self):
        """What a user's service reset would do between computations."""
        for b in self.current:
            if b is not None and not b.is_flushed():
                b.cancel()

    def _make_templates(self):
        B = self
        asynq_ = A.asynq
        callers = []
        synccallers = []

        class Holder(object):
            pass

        if self.spec.get("falsy_holder"):
            # the instance methods are looked up on is falsy (an empty container)
            Holder.__len__ = lambda self: 0
        self.holder_cls = Holder
        for idx, t in enumerate(self.spec["templates"]):
            kind = t.get("kind", "fn")

            def gen_body(inst):
                try:
                    return (yield from prog.body(B, inst))
                except GeneratorExit:
                    raise
                except BaseException as e:
                    inst.escaped = e
                    raise
                finally:
                    B.on_exit(inst)

            def plain_body(inst):
                g = gen_body(inst)
                try:
                    g.send(None)
                except StopIteration as e:
                    return e.value
                g.close()
                raise HarnessError("plain template %d yields" % inst.tmpl)

            name = "t%d" % idx
            if kind == "plain":
                plain_body.__name__ = name
                fn = asynq_()(plain_body)
                callers.append(fn.asynq)
                synccallers.append(fn)
            elif kind == "pure":
                gen_body.__name__ = name
                fn = asynq_(pure=True)(gen_body)
                callers.append(fn)
                synccallers.append(lambda inst, fn=fn: fn(inst).value())
            elif kind == "method":
                def m(self, inst, gen_body=gen_body):
                    if type(self) is not Holder:
                        B.viol("C09", "bound-instance", "method template %d ran with self=%r" % (inst.tmpl, self))
                    return (yield from gen_body(inst))
                m.__name__ = name
                setattr(Holder, name, asynq_()(m))
                h = Holder()
                callers.append(getattr(h, name).asynq)
                synccallers.append(getattr(h, name))
            elif kind == "classmethod":
                def cm(cls, inst, gen_body=gen_body):
                    return (yield from gen_body(inst))
                cm.__name__ = name
                setattr(Holder, name, asynq_()(classmethod(cm)))
                callers.append(getattr(Holder, name).asynq)
                synccallers.append(getattr(Holder, name))
            elif kind == "staticmethod":
                def sm(inst, gen_body=gen_body):
                    return (yield from gen_body(inst))
                sm.__name__ = name
                setattr(Holder, name, asynq_()(staticmethod(sm)))
                callers.append(getattr(Holder(), name).asynq)
                synccallers.append(getattr(Holder, name))
            elif kind == "proxy":
                gen_body.__name__ = name
                inner = asynq_()(gen_body)
                fn = A.async_proxy()(lambda inst, inner=inner: inner.asynq(inst))
                callers.append(fn.asynq)
                synccallers.append(lambda inst, fn=fn: fn.asynq(inst).value())
            else:
                gen_body.__name__ = name
                fn = asynq_()(gen_body)
                callers.append(fn.asynq)
                synccallers.append(fn)
        self.callers = callers
        self.synccallers = synccallers

    # ---- events -------------------------------------------------------------------------------
    def ev(self, *a):
        self.trace.append(a)

    def viol(self, prop, check, msg):
        if prop in self.mon or prop in ("C01",):
            if len(self.violations) < 8:
                self.violations.append((prop, check, msg, len(self.trace)))

    def fired(self, name):
        self.faults_fired[name] += 1

    # ---- futures ------------------------------------------------------------------------------
    def call(self, parent, child):
        task = self.callers[child.tmpl](child)
        self._register(child, task, parent)
        return task

    def _register(self, child, task, parent):
        child.task = task
        self.insts[child.token] = child
        self.ev("create", child.token)
        self.ntask_reg = getattr(self, "ntask_reg", 0) + 1
        if ("#%d" % self.ntask_reg) in self.cb_faults:
            self.cb_faults[child.token] = self.cb_faults["#%d" % self.ntask_reg]
        if task is not None:
            task.on_computed.subscribe(lambda t, c=child: self._task_done(c, t))

    def _task_done(self, inst, task):
        if inst.done:
            self.viol("C03", "completed-twice", "task %s completed twice" % inst.token)
        inst.done = True
        inst.done_at = len(self.trace)
        err = task.error()
        inst.outcome = ("V", repr(task.value())) if err is None else ("E", errtok(err))
        self.ev("done", inst.token, inst.outcome)
        esc = inst.escaped
        if esc is not None and err is not esc and "C02" in self.mon:
            self.viol("C02", "own-failure", "task %s failed with %s but its body raised %s" % (inst.token, errtok(err) if err is not None else "a value", errtok(esc)))
        if self.spec.get("cb_ctx") and (len(self.trace) + len(inst.token)) % 3 == 0:
            # a completion subscriber that works inside a context of its own
            self.probes["context_inside_on_computed"] += 1
            cm = SimContext(self, "cb.%s" % inst.token, inst)
            self.ctx_enter(inst, cm)
            try:
                with cm:
                    self.ctx_entered(inst, cm)
            finally:
                self.ctx_exit(inst, cm)
        f = self.cb_faults.get(inst.token)
        if f:
            self.fired("callback_raises_base" if f == "base" else "callback_raises")
            raise (SimBaseError if f == "base" else SimError)("cb:%s" % inst.token)

    def item(self, inst, tok, kind, key):
        if kind in self.native_kinds:
            it = SimDebugItem(self, tok, kind, key, native=True)
            self.items[tok] = it
            self.ev("item", tok, "native%d" % kind)
            return it
        if kind in self.debug_kinds:
            it = SimDebugItem(self, tok, kind, key)
        else:
            it = (SimItemEq if self.spec.get("item_eq") else SimItem)(self.current[kind], tok, key, self)
        self.items[tok] = it
        self.ev("item", tok, it.batch.bid)
        if self.spec.get("cache_hits") and isinstance(key, int) and key % 3 == 0 and kind not in self.debug_kinds \
                and ("%d:%s" % (kind, key)) not in self.item_faults:
            # a local cache hit: the request is answered the moment it is made, while the batch
            # it was registered with is still pending (it will be flushed for the others)
            self.fired("request_answered_at_creation")
            self.preanswered[tok] = "%d:%s" % (kind, key)
            it.set_value(self.preanswered[tok])
        return it

    def _item_computed(self, it):
        it.ncomputed += 1
        n = len(self.trace)
        err = it.error()
        out = ("V", it.value()) if err is None else ("E", err)
        self.ev("item_done", it.tok, ("V", repr(out[1])) if err is None else ("E", errtok(err)))
        if it.tok in self.record:
            self.viol("C05", "item-once", "item %s completed more than once" % it.tok)
        self.record[it.tok] = out
        it.done_at = n

    def const(self, inst, v):
        f = A.ConstFuture(v)
        if self.probe_rng is not None and len(self.misc_futures) < 200:
            self.misc_futures.append(f)
        return f

    def errfut(self, inst, tok):
        e = (prog.SimStop if tok.startswith("stop") else SimError)(tok)  # ("stop...": a StopIteration)
        self.errors[tok] = e
        self.fired("errfut")
        f = A.ErrorFuture(e)
        if self.probe_rng is not None:
            self.misc_futures.append(f)
        return f

    def lazy(self, inst, mode, tok):
        B = self
        state = [0]

        def provider():
            state[0] += 1
            B.ev("lazy", tok, state[0])
            if state[0] > 1:
                B.viol("C10", "provider-once", "lazy future provider %s ran %d times" % (tok, state[0]))
            if mode == "ok":
                return "lz:" + tok
            B.fired("lazy_fails")
            e = SimError(tok)
            B.errors[tok] = e
            raise e

        f = A.Future(provider)
        if self.probe_rng is not None:
            self.misc_futures.append(f)
        return f

    def result(self, val):
        A.result(val)

    def stack_probe(self, inst):
        """format_asynq_stack() from inside the running task: outermost entry first, this task last."""
        st = _adebug.format_asynq_stack()
        n = None if st is None else len(st)
        depth = 0
        c = inst
        while c is not None:
            depth += 1
            c = getattr(c, "parent", None)
        self.ev("stack", inst.token, n)

    def aio_call(self, inst):
        """Synchronous code inside a running task drives another asynq function through
        asyncio.run(fn.asyncio()); that function enters and leaves a context of its own (in asyncio
        mode a context is simply resumed and paused around its block). Afterwards the context is
        gone: nothing may touch it when the calling task is suspended and resumed later."""
        import asyncio
        self.nctx += 1
        cm = SimContext(self, "%s.aio%d" % (inst.token, self.nctx), inst)
        B = self

        @A.asynq()
        def leaf():
            with cm:
                B.ev("aio_body", inst.token)
                yield A.ConstFuture(None)
            return "aio"
        self.fired("asyncio_run_inside_a_task")
        try:
            asyncio.run(leaf.asyncio())
        finally:
            cm.left = True
        if cm.active:
            self.viol("C06", "exit-pauses", "context %s entered under asyncio.run() is still active after its block was left" % cm.cid)

    def set_option(self, inst, name, value):
        """User code flips a debug option in the middle of a task step."""
        if name in DEFAULT_OPTIONS:
            self.ev("option", name, bool(value))
            self.fired("option_toggled_mid_step")
            setattr(_adebug.options, name, bool(value))

    def handed_out(self, fut):
        if isinstance(fut, A.AsyncTask):
            ci = _inst_of(fut)
            if ci is not None:
                ci.shared = True

    def dd(self, inst, key):
        """A call of the process-wide @deduplicate() function (C16)."""
        t = DD_FN.asynq(key)
        mine = self.dd_tasks
        if not any(t is x for x in mine):
            mine.append(t)
        return t

    # ---- body callbacks -----------------------------------------------------------------------
    def _enter_body(self, inst):
        self.chain.append(inst)
        inst.nstep += 1
        if self.probe_rng is not None and self.probe_rate and self.probes["probe_points"] < 150 and self.probe_rng.random() < self.probe_rate:
            self._probe_all("step of %s" % inst.token)
        if self.outcome_rate and self.probes["outcome_probe_points"] < 150 and self.probe_rng.random() < self.outcome_rate:
            self._probe_outcomes("step of %s" % inst.token)

    def _probe_outcomes(self, where):
        """C10 inside running computations: a computed future keeps reporting the one outcome it
        was first seen with - through value(), error(), call and is_computed()."""
        objs = []
        for inst in self.insts.values():
            if inst.task is not None:
                objs.append(("task %s" % inst.token, inst.task))
        for tok, it in self.items.items():
            objs.append(("item %s" % tok, it))
        for i, f in enumerate(self.misc_futures):
            objs.append(("future #%d" % i, f))
        self.probes["outcome_probe_points"] += 1
        for name, f in objs:
            if not f.is_computed():
                continue
            self.probes["computed_futures_reread"] += 1
            try:
                e = f.error()
                if e is None:
                    cur = ("V", repr(f.value()), repr(f()))
                else:
                    cur = ("E", id(e), type(e).__name__)
                    try:
                        f.value()
                        self.viol("C10", "stable-outcome", "%s has error() %s but value() returned (at %s)" % (name, cur[2], where))
                    except BaseException as e2:
                        if e2 is not e:
                            self.viol("C10", "stable-outcome", "%s: value() raised %s, error() is %s (at %s)" % (name, type(e2).__name__, cur[2], where))
                if not f.is_computed():
                    self.viol("C10", "stable-outcome", "%s no longer computed after being read (at %s)" % (name, where))
            except HarnessError:
                raise
            except BaseException as e3:
                if type(e3).__name__ == "CaseTimeout":
                    raise
                self.viol("C10", "stable-outcome", "reading computed %s raised %s (at %s)" % (name, type(e3).__name__, where))
                continue
            old = self.first_outcome.get(id(f))
            if old is None:
                self.first_outcome[id(f)] = (cur, f)
            elif old[0] != cur:
                self.viol("C10", "stable-outcome", "%s first reported %r, now %r (at %s)" % (name, old[0][:2], cur[:2], where))

    def _probe_all(self, where):
        """C18(c): str / repr / dump of every live asynq object, in whatever state it is in now."""
        objs = []
        for inst in self.insts.values():
            if inst.task is not None:
                objs.append(("task %s" % inst.token, inst.task))
        seen_b = set()
        for tok, it in self.items.items():
            objs.append(("item %s" % tok, it))
            if id(it.batch) not in seen_b:
                seen_b.add(id(it.batch))
                objs.append(("batch %s" % getattr(it.batch, "bid", "native"), it.batch))
        for b in self.current:
            if b is not None and id(b) not in seen_b:
                seen_b.add(id(b))
                objs.append(("batch %s" % b.bid, b))
        for i, f in enumerate(self.misc_futures):
            objs.append(("future #%d" % i, f))
        objs.append(("scheduler", A.scheduler.get_scheduler()))
        for i, sv in enumerate(self.svs):
            objs.append(("scoped value %d" % i, sv))
        for cm in self.live_ctx:
            objs.append(("context %s" % cm.cid, cm))
        if len(objs) > 80:
            # bounded cost per probe point: a seeded sample (always keeping the scheduler)
            keep = objs[-(len(self.svs) + 1 + len(self.live_ctx)):]
            rest = objs[:len(objs) - len(keep)]
            objs = self.probe_rng.sample(rest, min(70, len(rest))) + keep
        self.probes["objects_printed"] += len(objs)
        self.probes["probe_points"] += 1
        for name, o in objs:
            for fn_name, fn in (("str", str), ("repr", repr), ("dump", None)):
                try:
                    if fn is None:
                        d = getattr(o, "dump", None)
                        if d is not None:
                            d()
                    else:
                        r = fn(o)
                        if not isinstance(r, str):
                            self.viol("C18", "total", "%s(%s) at %s returned %r" % (fn_name, name, where, type(r)))
                except HarnessError:
                    raise
                except BaseException as e:
                    if type(e).__name__ == "CaseTimeout":
                        raise
                    self.viol("C18", "total", "%s() of %s raised %s: %s (at %s)" % (fn_name, name, type(e).__name__, str(e)[:100], where))
        for tag, e in list(self.errors.items())[:6]:
            try:
                r = _adebug.format_error(e)
                if not isinstance(r, str):
                    self.viol("C18", "format-error", "format_error(%s) returned %r" % (tag, type(r)))
            except BaseException as ex:
                if type(ex).__name__ == "CaseTimeout":
                    raise
                self.viol("C18", "format-error", "format_error(%s) raised %s: %s" % (tag, type(ex).__name__, str(ex)[:100]))

    def _leave_body(self, inst):
        if self.chain and self.chain[-1] is inst:
            self.chain.pop()

    def on_start(self, inst):
        if inst.started:
            self.viol("C03", "started-twice", "body of %s started twice" % inst.token)
        inst.started = True
        inst.start_at = len(self.trace)
        self._enter_body(inst)
        self.ev("start", inst.token)
        if inst.token not in self.insts:
            self.insts[inst.token] = inst
        self._check_active(inst, "start")
        if self.spec.get("stack_probe"):
            self.stack_probe(inst)
        if "C03" in self.mon and not self._is_awaited(inst):
            self.viol("C03", "started-unawaited", "task %s started although nothing yielded or waited on it" % inst.token)
        self._read(inst)
        if "C06" in self.mon and self.live_ctx:
            self._ctx_monitor(inst)

    def on_return(self, inst, val):
        pass

    def on_exit(self, inst):
        self._leave_body(inst)
        inst.awaiting = None

    def on_closed(self, inst):
        inst.closed = True
        self.ev("closed", inst.token)

    def on_caught(self, inst, e):
        self.probes["caught"] += 1
        self.ev("caught", inst.token, errtok(e))

    def _check_active(self, inst, where):
        t = A.get_active_task()
        ok = t is not None and any(a is inst for a in t.args)
        if ok and inst.task is None:
            inst.task = t
            t.on_computed.subscribe(lambda t_, c=inst: self._task_done(c, t_))
        if ok and inst.task is not None and inst.task is not t:
            # proxies return the inner task, so identity must still hold
            ok = False
        if not ok:
            self.viol("C08", "active-task", "get_active_task() inside %s (%s) is %s" % (inst.token, where, _short(t)))
        t2 = self.scheduler.active_task if self.scheduler is A.scheduler.get_scheduler() else None
        if t2 is not t:
            self.viol("C08", "active-task", "scheduler.active_task differs from get_active_task() in %s" % inst.token)

    def _is_awaited(self, inst):
        # set by pre_yield / sync / run for everything that has been yielded or waited on
        return inst is self.root or inst.shared_awaited or (self.root_waiting is not None and self.root_waiting is inst)

    root_waiting = None

    def _read(self, inst):
        vals = tuple(sv.get() for sv in self.svs) + (self.attr.x,)
        self.reads.setdefault(inst.token, []).append(vals)

    def pre_yield(self, inst, struct):
        inst.awaiting = struct
        inst.nyield += 1
        leaves = flatten(struct)
        grp = []
        for leaf, path, plain in leaves:
            if isinstance(leaf, A.AsyncTask):
                ci = _inst_of(leaf)
                if ci is not None:
                    ci.shared_awaited = True
                    # only tasks created by this very yield expression: nobody else can hold (and
                    # await) them yet, so they are "first scheduled by being yielded together"
                    if plain and not ci.started and not leaf.is_computed() and ci.parent is inst \
                            and (_ordinal(ci.token) >= inst.yield_n0 or not ci.shared) and not any(ci is x for x in grp):
                        grp.append(ci)
        if len(grp) > 1:
            self.order_groups.append(grp)
        self.ev("yield", inst.token, inst.nyield, len(leaves))
        self._leave_body(inst)

    def post_yield(self, inst, struct, val, err):
        self._enter_body(inst)
        if inst.done:
            self.viol("C03", "step-after-done", "task %s resumed after it completed" % inst.token)
        self.ev("recv", inst.token, inst.nyield, repr(val) if err is None else ("E", errtok(err)))
        # C03: nothing awaited may be uncomputed at resume
        first_fail = None
        for leaf, path, plain in flatten(struct):
            if isinstance(leaf, A.FutureBase):
                if not leaf.is_computed():
                    self.viol("C03", "resumed-while-uncomputed",
                              "task %s resumed at yield #%d while %s is not computed (%s)"
                              % (inst.token, inst.nyield, _short(leaf), "error delivered" if err is not None else "value delivered"))
                    if err is not None:
                        self.viol("C02", "siblings-complete", "failure delivered to %s before sibling %s completed"
                                  % (inst.token, _short(leaf)))
                elif first_fail is None and leaf._error is not None:
                    first_fail = ("fut", leaf)
            elif first_fail is None:
                first_fail = ("bad", leaf)
        if err is not None and "C02" in self.mon:
            if first_fail is None:
                self.viol("C02", "spurious-error", "task %s got %s at a yield where nothing failed" % (inst.token, errtok(err)))
            elif first_fail[0] == "bad":
                if not isinstance(err, TypeError):
                    self.viol("C02", "typeerror", "non-future yielded first, but %s was delivered" % errtok(err))
            elif err is not first_fail[1].error():
                self.viol("C02", "identity", "exception delivered to %s (%s) is not the first failing future's error() (%s)"
                          % (inst.token, errtok(err), errtok(first_fail[1].error())))
        if err is None and first_fail is not None and "C02" in self.mon:
            self.viol("C02", "error-lost", "task %s received a value although %s failed" % (inst.token, _short(first_fail[1])))
        self._check_active(inst, "resume")
        self._read(inst)
        if "C06" in self.mon and self.live_ctx:
            self._ctx_monitor(inst)
        inst.awaiting = None

    def pre_sync(self, inst, st):
        self.probes["sync_call"] += 1

    def sync(self, inst, node, how):
        k = node[0]
        if k == "call" and how == "call":
            tmpl = node[1]
            if not isinstance(tmpl, int) or tmpl <= inst.tmpl or tmpl >= len(self.spec["templates"]):
                return "nocall"
            args = [inst.vars[i % len(inst.vars)] for i in node[2]] if inst.vars else []
            child = Inst("%s.%d" % (inst.token, inst.n), tmpl, args, inst)
            inst.n += 1
            self.insts[child.token] = child
            self.ev("create", child.token)
            inst.syncing = child
            child.shared_awaited = True
            ext = [child, len(self.trace), None]
            self.extents.append(ext)
            try:
                return self.synccallers[tmpl](child)
            finally:
                self.extents.pop()
                ext[2] = len(self.trace)
                self.closed_extents.append(ext)
                inst.syncing = None
                if child.task is not None and not child.done and child.started:
                    pass
        fut = prog.build_leaf(self, inst, node)
        if not isinstance(fut, A.FutureBase):
            raise TypeError("sync on non-future")
        inst.syncing = fut
        ci = _inst_of(fut) if isinstance(fut, A.AsyncTask) else None
        if ci is not None:
            ci.shared_awaited = True
        ext = [ci, len(self.trace), None]
        if ci is not None:
            self.extents.append(ext)
        try:
            return fut.value()
        finally:
            if ci is not None:
                self.extents.pop()
                ext[2] = len(self.trace)
                self.closed_extents.append(ext)
            inst.syncing = None

    def post_sync(self, inst, val, err):
        self.ev("sync_ret", inst.token, repr(val) if err is None else ("E", errtok(err)))
        self._check_active(inst, "after-sync")
        self._read(inst)
        if "C06" in self.mon and self.live_ctx:
            self._ctx_monitor(inst)

    def probe(self, inst, st):
        pass

    # ---- contexts -----------------------------------------------------------------------------
    def make_ctx(self, inst, spec):
        k = spec[0]
        cid = "%s.c%d" % (inst.token, inst.nc)
        inst.nc += 1
        self.nctx += 1
        f = self.ctx_faults.get("#%d" % self.nctx)
        if f is not None:
            self.ctx_faults[cid] = f
        if k == "ctx":
            return SimContext(self, cid, inst)
        if k == "na":
            return SimNonAsync(self, cid, inst)
        if k == "sv":
            if self.spec.get("plain_overrides"):
                self.probes["override_via_public_factory"] += 1
                return PlainCtx(self.svs[spec[1] % len(self.svs)].override(spec[2]), cid, inst)
            return SimOverride(self, cid, inst, self.svs[spec[1] % len(self.svs)], spec[2])
        if k == "attr":
            return SimAttrOverride(self, cid, inst, self.attr, "x", spec[1])
        if k == "timer":
            return SimTimer(self, cid, inst)
        raise HarnessError("bad ctx %r" % (spec,))

    def ctx_enter(self, inst, cm):
        self.ev("enter", cm.cid)

    def ctx_entered(self, inst, cm):
        cm.entered = True
        if cm.kind != "na":
            self.live_ctx.append(cm)
            if not cm.active:
                self.viol("C06", "enter-resumes", "context %s not resumed on entry" % cm.cid)

    def ctx_exit(self, inst, cm):
        self.ev("exit", cm.cid)
        if cm.kind != "na" and cm.entered:
            cm.entered = False
            cm.left = True
            if cm in self.live_ctx:
                self.live_ctx.remove(cm)
            if cm.active:
                self.viol("C06", "exit-pauses", "context %s still active after its block was left" % cm.cid)
            s = "".join(cm.seq)
            if not _alternates(s):
                self.viol("C06", "alternation", "context %s saw events %s" % (cm.cid, s))

    def _edges(self, inst):
        out = []
        if inst.awaiting is not None:
            for leaf, _, _ in flatten(inst.awaiting):
                if isinstance(leaf, A.AsyncTask):
                    ci = _inst_of(leaf)
                    if ci is not None:
                        out.append(ci)
        s = inst.syncing
        if s is not None:
            if isinstance(s, Inst):
                out.append(s)
            elif isinstance(s, A.AsyncTask):
                ci = _inst_of(s)
                if ci is not None:
                    out.append(ci)
        return out

    def _reach(self, src, avoid=None):
        seen = set()
        stack = [src]
        while stack:
            i = stack.pop()
            if id(i) in seen or i is avoid:
                continue
            seen.add(id(i))
            stack.extend(self._edges(i))
        return seen

    def _ctx_monitor(self, U, what="step of"):
        """C06 activity oracle at a step-begin of U (U is chain[-1])."""
        chain_ids = {id(i) for i in self.chain}
        reach_cache = {}
        live = self.live_ctx
        if len(live) * len(self.insts) > 4000:
            # bounded cost on large programs: a rotating window of the live contexts
            self._ctx_rot = (getattr(self, "_ctx_rot", 0) + 3) % len(live)
            live = (live + live)[self._ctx_rot:self._ctx_rot + 3]
        for cm in live:
            T = cm.owner
            if id(T) in chain_ids:
                if not cm.active:
                    self.viol("C06", "active-own", "context %s of running task %s is paused while %s runs"
                              % (cm.cid, T.token, U.token))
                continue
            r = reach_cache.get(id(T))
            if r is None:
                r = reach_cache[id(T)] = self._reach(T)
            if id(U) not in r:
                if cm.active:
                    self.viol("C06", "paused-unrelated", "context %s of %s is active while %s, which it does not await, runs"
                              % (cm.cid, T.token, U.token))
            else:
                # dominance: is U reachable from the outermost root without passing T?
                if self.root is not None and self.root is not T:
                    r2 = self._reach(self.root, avoid=T)
                    if id(U) not in r2 and not cm.active:
                        self.viol("C06", "active-awaited", "context %s of %s is paused while %s, awaited only through it, runs"
                                  % (cm.cid, T.token, U.token))

    # ---- scheduler flush events ------------------------------------------------------------------
    def _before_flush(self, batch):
        n = len(self.trace)
        self.probes["sched_flush"] += 1
        bid = getattr(batch, "bid", "?")
        self.ev("before", bid)
        if self.sched_flush is not None:
            self.probes["nested_sched_flush"] += 1
        self.before_after.append(["b", batch, n])
        if "C05" in self.mon:
            if batch.is_computed():
                self.viol("C05", "flush-pending", "scheduler flushes batch %s which is already flushed/cancelled" % bid)
            if not batch.items:
                self.viol("C05", "flush-nonempty", "scheduler flushes empty batch %s" % bid)
            nsf = self.sched_flush_count.get(id(batch), 0)
            self.sched_flush_count[id(batch)] = nsf + 1
            self.sched_flush_keep.append(batch)
            if nsf > 0:
                self.viol("C05", "flush-once", "the scheduler flushes batch %s a second time" % bid)
            elif getattr(batch, "nflush_body", 0) > 0:
                # its body is already running: the batch is being flushed directly (item.value())
                # and that flush body re-entered asynq - not a second *scheduler* flush
                self.probes["sched_flush_of_batch_mid_direct_flush"] += 1
            self._check_prio(batch)
            ext = self.extents[-1] if self.extents else None
            r = ext[0] if ext else self.root
            if r is not None and r.done:
                self.viol("C05", "flush-after-done", "flush of %s although the waited task %s is already complete" % (bid, r.token))
        if "C04" in self.mon and self.yield_only:
            self._check_no_runnable(bid)
        if "C07" in self.mon and not self.chain:
            vals = [sv.get() for sv in self.svs] + [self.attr.x]
            if vals != self.defaults:
                self.viol("C07", "read-at-flush", "during the flush of %s (no task is running) the scoped values read %r instead of %r" % (bid, vals, self.defaults))
        if "C06" in self.mon and self.live_ctx:
            if self.chain:
                # flush issued by a synchronous wait nested inside the running task chain[-1]:
                # same rule as for a step of that task
                self._ctx_monitor(self.chain[-1], "flush of %s inside" % bid)
            else:
                for cm in self.live_ctx:
                    if cm.active:
                        self.viol("C06", "paused-at-flush", "context %s of suspended task %s is active while batch %s is flushed"
                                  % (cm.cid, cm.owner.token, bid))
        self.prio_log = []
        self.sched_stack_push(batch)
        bc = self.spec.get("faults", {}).get("before_hook_cancels")
        if bc and self.probes["sched_flush"] == bc and not batch.is_computed():
            # a before-flush subscriber (e.g. a circuit breaker) cancels the batch that is about to
            # be flushed: the flush cannot happen any more, the after event still has to fire
            self.fired("before_flush_hook_cancels_batch")
            e = SimError("bc:%d" % bc)
            self.errors[e.tag] = e
            batch.cancel(e)
        bf = self.spec.get("faults", {}).get("before_hook_raises")
        if bf and self.probes["sched_flush"] == bf:
            self.fired("before_flush_hook_raises")
            prev = getattr(self, "_sched_prev", [])
            self.sched_flush = prev.pop() if prev else None
            self.before_after.pop()
            raise SimError("bh:%d" % bf)

    def sched_stack_push(self, batch):
        self._sched_prev = getattr(self, "_sched_prev", [])
        self._sched_prev.append(self.sched_flush)
        self.sched_flush = batch

    def _after_flush(self, batch):
        self.ev("after", getattr(batch, "bid", "?"))
        self.before_after.append(["a", batch, len(self.trace)])
        if self.sched_flush is not batch:
            self.viol("C05", "before-after", "after-flush event for %s without matching before event" % getattr(batch, "bid", "?"))
        prev = getattr(self, "_sched_prev", [])
        self.sched_flush = prev.pop() if prev else None
        self.prio_log = []

    def _check_prio(self, batch):
        rnd = self.prio_log
        chosen = [p for b, p in rnd if b is batch]
        if not chosen:
            if hasattr(batch, "prio"):
                self.viol("C05", "priority-consulted", "the scheduler flushed batch %s without asking its get_priority() in this selection round" % batch.bid)
            return
        cp = chosen[-1]
        pending = [(b, p) for b, p in rnd if b is not batch and not b.is_flushed() and b.items]
        if len(pending) >= 1:
            self.probes["prio_choice"] += 1
        if self.yield_only or not self.spec.get("reentry"):
            for b, p in pending:
                if p > cp:
                    self.viol("C05", "priority", "flushed %s with priority %r while pending %s has %r" % (batch.bid, cp, b.bid, p))
                    break
                if p == cp:
                    self.probes["tie_by_hash"] += 1
        if self.yield_only:
            asked = {id(b) for b, p in rnd}
            for b in self.current:
                if b is not None and b is not batch and id(b) not in asked and b.items and not b.is_flushed():
                    if self._batch_awaited(b):
                        self.viol("C05", "candidates", "pending batch %s with awaited items was not considered" % b.bid)

    def _batch_awaited(self, b):
        for inst in self.insts.values():
            if inst.started and not inst.done and inst.awaiting is not None and self._reachable_from_root(inst):
                for leaf, _, _ in flatten(inst.awaiting):
                    if isinstance(leaf, (SimItem, SimDebugItem)) and leaf.batch is b and not leaf.is_computed():
                        return True
        return False

    def _reachable_from_root(self, inst):
        if self.root is None:
            return False
        return id(inst) in self._reach(self.root)

    def _check_no_runnable(self, bid):
        R = self.root
        if R is None:
            return
        seen = set()
        stack = [R]
        while stack:
            I = stack.pop()
            if id(I) in seen:
                continue
            seen.add(id(I))
            if I.done:
                continue
            if not I.started:
                self.viol("C04", "unstarted-at-flush", "batch %s flushed while awaited task %s has not started" % (bid, I.token))
                continue
            if I.awaiting is None:
                continue
            pend = 0
            for leaf, _, _ in flatten(I.awaiting):
                if isinstance(leaf, A.FutureBase) and not leaf.is_computed():
                    pend += 1
                    if isinstance(leaf, A.AsyncTask):
                        ci = _inst_of(leaf)
                        if ci is not None:
                            stack.append(ci)
                    elif isinstance(leaf, (SimItem, SimDebugItem)):
                        if leaf.batch.is_flushed():
                            self.viol("C04", "item-state", "item %s uncomputed but its batch is flushed" % leaf.tok)
                    else:
                        self.viol("C04", "lazy-at-flush", "batch %s flushed while a lazily computed future awaited by %s is uncomputed" % (bid, I.token))
            if pend == 0:
                self.viol("C04", "runnable-at-flush", "batch %s flushed while task %s could run (everything it awaits is computed)" % (bid, I.token))

    # ---- the service ---------------------------------------------------------------------------------
    def service_flush(self, batch):
        kind = batch.kind
        self.kind_flushes[kind] += 1
        ordn = self.kind_flushes[kind]
        toks = [it.tok for it in batch.items]
        rec = {"kind": kind, "gen": batch.gen, "tokens": toks, "at": len(self.trace),
               "sched": self.sched_flush is batch, "depth": len(self.extents), "set": {}, "how": None}
        self.flushes.append(rec)
        self.ev("flush", batch.bid, tuple(toks))
        if self.current[kind] is batch:
            self.viol("C11", "switch-before-flush", "batch %s still the active batch while its flush body runs" % batch.bid)
        if len(self.extents) > 0:
            self.probes["flush_in_nested_wait"] += 1
        if self.flush_hook is not None:
            self.flush_hook(batch)
        pre_plan = self.flush_faults.get("%d#%d" % (kind, ordn))
        if pre_plan and pre_plan.get("reenter") and pre_plan.get("reenter_first"):
            self.fired("flush_reenters")
            k2 = pre_plan["reenter"] % self.spec["kinds"]
            if self.current[k2] is None or k2 in self.debug_kinds:
                k2 = kind
            self._reenter(kind, ordn, k2)
        if self.probe_rng is not None and self.probe_rate and self.probes["probe_points"] < 150 and self.probe_rng.random() < self.probe_rate:
            self._probe_all("flush body of %s" % batch.bid)
        if self.outcome_rate and self.probes["outcome_probe_points"] < 150 and self.probe_rng.random() < self.outcome_rate:
            self._probe_outcomes("flush body of %s" % batch.bid)
        plan = self.flush_faults.get("%d#%d" % (kind, ordn))
        items = list(batch.items)
        for idx, it in enumerate(items):
            if plan and plan.get("cancel_self_at") == idx:
                # the service gives up (timeout): the body completes the rest through the public
                # cancel() and returns normally
                self.fired("flush_cancels_own_batch")
                e = SimError("fc:%d#%d" % (kind, ordn))
                self.errors[e.tag] = e
                rec["how"] = ("cancelled", e)
                batch.cancel(e)
                rec["end"] = len(self.trace)
                return
            if plan and plan.get("raise_at") == idx:
                self._flush_raise(kind, ordn, plan, rec)
            if it.tok in self.preanswered:
                rec["set"][it.tok] = ("V", self.preanswered[it.tok])
                continue
            f = self.item_faults.get("%d:%s" % (kind, it.key))
            if f == "unset":
                self.fired("item_unset")
                continue
            if f in ("err", "err_stop"):
                self.fired("item_error" if f == "err" else "item_error_stopiteration")
                e = (SimError if f == "err" else prog.SimStop)("ie:%s" % it.tok)
                self.errors[e.tag] = e
                rec["set"][it.tok] = ("E", e)
                it.set_error(e)
            else:
                rec["set"][it.tok] = ("V", "%d:%s" % (kind, it.key))
                it.set_value("%d:%s" % (kind, it.key))
        if plan and plan.get("reenter") and not plan.get("reenter_first"):
            self.fired("flush_reenters")
            k2 = plan["reenter"] % self.spec["kinds"]
            if self.current[k2] is None or k2 in self.debug_kinds:
                k2 = kind
            self._reenter(kind, ordn, k2)
        if plan and plan.get("cancel_kind") is not None:
            k2 = plan["cancel_kind"] % self.spec["kinds"]
            b2 = self.current[k2]
            if b2 is not batch and b2 is not None and not b2.is_computed() and b2.items and k2 not in self.debug_kinds:
                self.fired("batch_cancelled_while_scheduled")
                e = SimError("ce:%d#%d" % (kind, ordn))
                self.errors[e.tag] = e
                b2.cancel(e)
                rec.setdefault("cancelled", []).append(k2)
                self.ev("cancelled", b2.bid)
        if plan:
            if plan.get("new_items"):
                self.fired("flush_creates_items")
                k2 = plan["new_items"] % self.spec["kinds"]
                if self.current[k2] is None or k2 in self.debug_kinds:
                    k2 = kind
                ni = SimItem(self.current[k2], "x%d.%d" % (kind, ordn), "x", self)
                if ni.batch is batch:
                    self.viol("C11", "fresh-batch", "item created during flush joined the batch being flushed")
            if plan.get("raise_at") is not None and plan["raise_at"] >= len(items):
                self._flush_raise(kind, ordn, plan, rec)
        rec["how"] = ("returned", None)
        rec["end"] = len(self.trace)

    def _reenter(self, kind, ordn, k2):
        """The flush body synchronously calls an @asynq function that awaits a request of kind k2."""
        B = self

        @A.asynq()
        def reentrant():
            it = SimItem(B.current[k2], "x%d.%d.r" % (kind, ordn), "xr", B)
            v = yield it
            return v

        try:
            reentrant()
        except SimError:
            pass

    def _flush_raise(self, kind, ordn, plan, rec=None):
        tag = "fe:%d#%d" % (kind, ordn)
        if plan.get("base"):
            self.fired("flush_raises_base")
            e = SimBaseError(tag)
        else:
            self.fired("flush_raises")
            e = SimError(tag)
        self.errors[tag] = e
        if rec is not None:
            rec["how"] = ("raised", e)
        raise e

    # ---- running ---------------------------------------------------------------------------------------
    def run(self):
        """Executes the program; returns ("V", value) or ("E", exception)."""
        self.setup()
        CUR.B = self
        spec = self.spec
        ext = []
        for j, tmpl in enumerate(spec.get("ext_tasks", [])):
            if isinstance(tmpl, int) and 0 < tmpl < len(spec["templates"]):
                # created at top level (no creator), evaluated later from inside the computation
                ei = Inst("e%d" % j, tmpl, [])
                ext.append(self.call(None, ei))
        if spec.get("reset_after_ext") and not self.threaded:
            # the public asynq.scheduler.reset() between building those tasks and using them: the
            # thread gets a new scheduler; a task belongs to whichever scheduler evaluates it
            self.scheduler.on_before_batch_flush.unsubscribe(self._before_flush)
            self.scheduler.on_after_batch_flush.unsubscribe(self._after_flush)
            _sched.reset()
            self.scheduler = A.scheduler.get_scheduler()
            self.scheduler.on_before_batch_flush.subscribe(self._before_flush)
            self.scheduler.on_after_batch_flush.subscribe(self._after_flush)
            self.fired("scheduler_reset_between_build_and_use")
        root = Inst("r", spec["root"]["tmpl"], ext)
        self.root = root
        self.insts["r"] = root
        conv = spec["root"].get("conv", "call")
        gc_was = gc.isenabled()
        if not self.threaded:
            gc.disable()
        out = None
        try:
            try:
                if conv == "call":
                    self.root_waiting = root
                    val = self.synccallers[root.tmpl](root)
                elif conv == "value":
                    if spec.get("handover"):
                        # the task object is built on another thread (a dispatcher) and handed
                        # over, un-evaluated, to this one
                        box = []
                        th = _threading.Thread(target=lambda: box.append(self.callers[root.tmpl](root)), name="dispatcher")
                        th.start()
                        th.join()
                        task = box[0]
                        self.probes["task_built_on_another_thread"] += 1
                    else:
                        task = self.callers[root.tmpl](root)
                    self._register(root, task, None)
                    self.root_waiting = root
                    val = task.value()
                else:  # wrapped: yielded from another task
                    B = self

                    @A.asynq()
                    def wrapper():
                        task = B.callers[root.tmpl](root)
                        B._register(root, task, None)
                        B.root_waiting = root
                        v = yield task
                        return v

                    val = wrapper()
                out = ("V", val)
            except HarnessError:
                raise
            except BaseException as e:
                out = ("E", e)
            self.ev("root", ("V", repr(out[1])) if out[0] == "V" else ("E", errtok(out[1])))
            task = val = wrapper = None  # this frame must not keep the computation's tasks alive
            self.post_run(out)
        finally:
            self.teardown()
            if gc_was and not self.threaded:
                gc.enable()
        return out

    def post_run(self, out):
        # C08 / C07 end-of-computation monitors
        t = A.get_active_task()
        if t is not None:
            self.viol("C08", "active-after", "get_active_task() is %s after the outermost call returned" % _short(t))
        sch = A.scheduler.get_scheduler()
        self.residue = None
        if sch is self.scheduler:
            ntasks = len(sch._tasks)
            if ntasks:
                self.viol("C08", "residue", "%d task(s) left on the scheduler after the computation ended (%s)"
                          % (ntasks, errtok(out[1]) if out[0] == "E" else "value"))
            if sch.active_task is not None:
                self.viol("C08", "active-after", "scheduler.active_task left set after the computation")
        self._check_restored("after-computation")
        # start order groups (C03)
        if "C03" in self.mon:
            for grp in self.order_groups:
                last = -1
                for ci in grp:
                    at = getattr(ci, "start_at", None)
                    if at is None:
                        continue
                    if at < last:
                        self.viol("C03", "start-order", "tasks yielded together started out of written order: %s"
                                  % [c.token for c in grp])
                        break
                    last = at
            # termination: when the outermost call returns or raises, the task it waited for is
            # computed (unless user code running inside the scheduler loop itself - a context,
            # get_priority(), a flush hook - raised, or the runaway guard stopped the computation)
            fl = self.spec.get("faults", {})
            rt = self.root.task if self.root is not None else None
            if rt is not None and not rt.is_computed() and not fl.get("ctx") and not fl.get("prio_raises") \
                    and not fl.get("before_hook_raises") and not self.spec.get("max_stack") \
                    and not (out[0] == "E" and isinstance(out[1], (RuntimeError, RecursionError, MemoryError, KeyboardInterrupt))):
                self.viol("C03", "returned-uncomputed", "the outermost call ended (%s) but the task it waited for is not computed"
                          % (errtok(out[1]) if out[0] == "E" else "value"))
        # before/after pairing (C05)
        if "C05" in self.mon:
            depth = 0
            stack = []
            for kind, b, n in self.before_after:
                if kind == "b":
                    stack.append(b)
                else:
                    if not stack or stack[-1] is not b:
                        self.viol("C05", "before-after", "after event without matching before for %s" % getattr(b, "bid", "?"))
                    else:
                        stack.pop()
            if stack:
                self.viol("C05", "before-after", "before-flush event for %s never followed by an after event" % stack[-1].bid)
            for rec in self.flushes:
                if rec["sched"]:
                    for tok in rec["tokens"]:
                        it = self.items.get(tok)
                        if it is None:
                            continue
                        if it.ncomputed != 1:
                            self.viol("C05", "item-once", "item %s of flushed batch notified completion %d times" % (tok, it.ncomputed))
            # closed nested extents: no flush after the waited task completed
            import bisect
            fl_at = sorted(rec["at"] for rec in self.flushes)
            for ext in self.closed_extents:
                ci = ext[0]
                if ci is None or not ci.done:
                    continue
                lo = max(ci.done_at, ext[1])
                j = bisect.bisect_right(fl_at, lo)
                if j < len(fl_at) and fl_at[j] < ext[2]:
                    self.viol("C05", "flush-after-done", "flush inside the synchronous wait for %s after it completed" % ci.token)
                    break
        if self.threaded:
            return
        # drop the harness' own references to tasks, as user code leaving scope would, so that
        # abandoned (never completed) generators are finalised here, at a fixed trace point
        self.root_error = None
        self.root_computed = False
        if self.root is not None and self.root.task is not None and self.root.task.is_computed():
            self.root_error = self.root.task._error
            self.root_computed = True
        if self.probe_rng is not None and self.probe_rate:
            self._probe_all("end of computation")
        if self.outcome_rate:
            self._probe_outcomes("end of computation")
        self.first_outcome = {}
        self.live_ctx = []
        self.before_after = []
        self.prio_log = []
        self.misc_futures = []
        for inst in self.insts.values():
            inst.task = None
            inst.vars = []
            inst.awaiting = None
            inst.syncing = None
            inst.escaped = None
        # the frames kept alive by the traceback of an escaping exception hold the tasks of the
        # computation: release them like user code that has finished handling the error, so that
        # abandoned generators are finalised here and not whenever the exception object dies
        if out[0] == "E":
            e, seen = out[1], set()
            while e is not None and id(e) not in seen:
                seen.add(id(e))
                if e.__traceback__ is not None:
                    _traceback.clear_frames(e.__traceback__)
                e = e.__context__ if e.__cause__ is None else e.__cause__
        self.ev("gc")
        gc.collect()
        gc.collect()
        self._check_restored("after-gc")

    def _check_restored(self, when):
        for i, sv in enumerate(self.svs):
            if isinstance(sv, DerivedSV) and (sv.nset or sv._value is not None):
                self.viol("C07", "restored", "scoped value #%d (a subclass whose stored value None means \"live default\") %s: set() was called %d times by asynq, stored value %r"
                          % (i, when, sv.nset, sv._value))
                sv.nset = 0
                A.AsyncScopedValue.set(sv, None)
        vals = [sv.get() for sv in self.svs] + [self.attr.x]
        if vals != self.defaults:
            self.viol("C07", "restored", "scoped values %s: %r instead of %r" % (when, vals, self.defaults))
            # put them back so that later checks are independent
            for sv, d in zip(self.svs, self.defaults):
                if isinstance(sv, DerivedSV):
                    A.AsyncScopedValue.set(sv, None)
                else:
                    sv.set(d)
            self.attr.x = self.defaults[-1]
        if self.active_stack:
            self.viol("C06", "left-active", "contexts still active %s: %s" % (when, [c.cid for c in self.active_stack]))
            self.active_stack = []


def _ordinal(token):
    try:
        return int(token.rsplit(".", 1)[1])
    except (ValueError, IndexError):
        return -1


def _alternates(s):
    # resume (pause resume)* pause
    if not s:
        return True
    if len(s) % 2:
        return False
    return s == "rp" * (len(s) // 2)


def _inst_of(task):
    try:
        for a in task.args:
            if isinstance(a, Inst):
                return a
    except Exception:
        pass
    return None


def _short(x):
    if x is None:
        return "None"
    i = _inst_of(x) if isinstance(x, A.AsyncTask) else None
    if i is not None:
        return "task %s" % i.token
    tok = getattr(x, "tok", None)
    if tok:
        return "item %s" % tok
    return type(x).__name__
