"""Worker: runs a shard of seeded cases of one property against one build, in one process."""
import argparse
import collections
import faulthandler
import hashlib
import importlib
import json
import os
import random
import signal
import sys
import time
import traceback


class CaseTimeout(BaseException):
    pass


TIMED = {"out": False}


def _alarm(signum, frame):
    # raised again every second until the case is abandoned: harness code that classifies
    # "unexpected exceptions" broadly cannot swallow a timeout for good
    TIMED["out"] = True
    raise CaseTimeout()


def case_seed(seed, prop, k):
    h = hashlib.blake2b(("%d/%s/%d" % (seed, prop, k)).encode(), digest_size=8).digest()
    return int.from_bytes(h, "big")


def load_known(path):
    """finding: property=<id> key=<check>[:<substring>] <text>   (key may be double-quoted to contain spaces)"""
    import re
    out = []
    if os.path.exists(path):
        for line in open(path):
            line = line.strip()
            m = re.match(r'^finding:\s+property=(\S+)\s+key=(?:"([^"]*)"|(\S+))\s*(.*)$', line)
            if m:
                out.append({"property": m.group(1), "key": m.group(2) if m.group(2) is not None else m.group(3), "text": m.group(4)})
    return out


def merge_stats(total, stats):
    for k, v in stats.items():
        if isinstance(v, dict):
            d = total.setdefault(k, {})
            for k2, v2 in v.items():
                d[k2] = d.get(k2, 0) + v2
        elif isinstance(v, (int, float)):
            total[k] = total.get(k, 0) + v


def main(argv=None):
    ap = argparse.ArgumentParser()
    ap.add_argument("--prop", required=True)
    ap.add_argument("--build", required=True)
    ap.add_argument("--seed", type=int, default=0)
    ap.add_argument("--tier", default="quick")
    ap.add_argument("--shard", default="0/1")
    ap.add_argument("--count", type=int, default=100)
    ap.add_argument("--deadline", type=float, default=0)
    ap.add_argument("--out", required=True)
    ap.add_argument("--replay")
    ap.add_argument("--case-timeout", type=int, default=20)
    ap.add_argument("--digests", action="store_true")
    args = ap.parse_args(argv)
    if args.tier == "thorough" and args.case_timeout == 20:
        args.case_timeout = 120  # thorough programs are up to ~5x larger

    faulthandler.enable(file=sys.__stderr__)
    from simq import env as simenv  # installs capture before asynq is imported
    P = importlib.import_module("simq.props.%s" % args.prop.lower()).PROP
    from simq import shrink

    import asynq.scheduler
    is_so = asynq.scheduler.__file__.endswith(".so")
    if (args.build == "cy") != is_so:
        raise SystemExit("HARNESS-ERROR: build %s but scheduler at %s" % (args.build, asynq.scheduler.__file__))

    # the per-case limit is CPU time of this process (a spinning scheduler burns it; a machine
    # that is merely overloaded does not); a tenfold wall-clock limit backs it up for a case
    # that blocks without using the CPU
    signal.signal(signal.SIGALRM, _alarm)
    signal.signal(signal.SIGPROF, _alarm)
    known = [k for k in load_known(os.path.join(os.path.dirname(os.path.dirname(os.path.abspath(__file__))), "KNOWN_FINDINGS.txt"))
             if k["property"] == args.prop]

    hang_result = {"violations": [("hang", "the computation did not terminate within %d s of CPU time" % args.case_timeout)],
                   "stats": {}, "sig": "hang", "nontrivial": True, "digest": "hang"}

    def run_case(case, timeout=None):
        TIMED["out"] = False
        signal.setitimer(signal.ITIMER_PROF, timeout or args.case_timeout, 1.0)
        signal.setitimer(signal.ITIMER_REAL, 10 * (timeout or args.case_timeout), 1.0)
        try:
            r = P.run(case, args.build)
        except CaseTimeout:
            return dict(hang_result)
        finally:
            signal.setitimer(signal.ITIMER_PROF, 0)
            signal.setitimer(signal.ITIMER_REAL, 0)
        if TIMED["out"]:
            return dict(hang_result)
        return r

    res = {"prop": args.prop, "build": args.build, "runs": 0, "nontrivial": 0, "stats": {}, "sigs": [],
           "samples": [], "violation": None, "known_hits": [], "errors": [], "wall_s": 0.0, "digests": {}}
    sigs = set()
    t0 = time.time()

    if args.replay:
        rp = json.load(open(args.replay))
        r = run_case(rp["case"])
        hit = [v for v in r["violations"] if v[0] == rp["check"]]
        res["runs"] = 1
        res["replay"] = {"reproduced": bool(hit), "digest_equal": r.get("digest") == rp.get("digest"),
                         "digest": r.get("digest"), "violations": r["violations"][:5]}
        json.dump(res, open(args.out, "w"))
        return 0

    i, n = [int(x) for x in args.shard.split("/")]
    k = i
    done = 0
    while done < args.count:
        if args.deadline and time.time() > args.deadline:
            break
        cs = case_seed(args.seed, args.prop, k)
        rng = random.Random(cs)
        try:
            grp = getattr(P, "group", 1)
            if grp > 1:
                case = P.gen(rng, args.tier, k, random.Random(case_seed(args.seed, args.prop + "/base", k // grp)))
            else:
                case = P.gen(rng, args.tier, k)
            r = run_case(case)
        except BaseException as e:
            if isinstance(e, (KeyboardInterrupt, SystemExit)):
                raise
            res["errors"].append({"case_index": k, "seed": cs, "error": "".join(traceback.format_exception(type(e), e, e.__traceback__))[-3000:]})
            break
        res["runs"] += 1
        done += 1
        merge_stats(res["stats"], r.get("stats", {}))
        if r.get("nontrivial"):
            res["nontrivial"] += 1
            for s in (r.get("sigs") or [r.get("sig")]):
                if len(sigs) < 300000:
                    sigs.add(hashlib.blake2b(str(s).encode(), digest_size=6).hexdigest())
        if args.digests:
            res["digests"][str(k)] = r.get("digest")
        if len(res["samples"]) < 2 and r.get("nontrivial"):
            res["samples"].append(P.sample(case, r))
        if r["violations"]:
            v = r["violations"][0]
            check = v[0]

            def fails(c):
                rr = run_case(c, 10)
                return any(x[0] == check for x in rr["violations"]) and rr.get("digest") != "hang"

            if check == "hang":
                small, tried = case, 0  # every candidate would cost a full timeout
            else:
                small, tried = shrink.minimise(case, fails, *P.shrink_budget(args.tier))
            rs = r if small is case else run_case(small)
            vs = [x for x in rs["violations"] if x[0] == check]
            if not vs:  # should not happen (deterministic); fall back to the original
                small, rs, vs = case, r, [v]
            msg = vs[0][1]
            kh = None
            for kf in known:
                key = kf["key"] or ""
                kc, _, ksub = key.partition(":")
                if kc == check and (not ksub or ksub in msg or ksub in json.dumps(small)):
                    kh = kf
                    break
            if kh is not None:
                if kh["key"] not in [x["key"] for x in res["known_hits"]]:
                    res["known_hits"].append({"key": kh["key"], "text": kh["text"], "message": msg})
                k += n
                continue
            res["violation"] = {
                "property": args.prop, "check": check, "message": msg, "build": args.build,
                "verif_seed": args.seed, "case_index": k, "case_seed": cs, "tier": args.tier,
                "case": small, "digest": rs.get("digest"), "minimised": small is not case,
                "shrink_candidates_tried": tried, "original_case": case if small is not case else None,
                "original_message": v[1], "pythonhashseed": os.environ.get("PYTHONHASHSEED"),
            }
            break
        k += n
    res["sigs"] = sorted(sigs)
    res["wall_s"] = time.time() - t0
    res["sim_us"] = simenv.clock.elapsed()
    json.dump(res, open(args.out, "w"))
    return 0


if __name__ == "__main__":
    sys.exit(main())
