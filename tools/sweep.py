#!/venv/bin/python
"""Applies each seeded change to /repo, runs the given checks, and restores /repo.
usage: sweep.py <dir-with-patch.diff>[:P1,P2] ...   (default properties: meta.json "property")"""
import json
import os
import subprocess
import sys
import time


def sh(cmd, **kw):
    return subprocess.run(cmd, shell=True, stdout=subprocess.PIPE, stderr=subprocess.STDOUT, text=True, **kw)


VERIF_DIR = os.path.dirname(os.path.dirname(os.path.abspath(__file__)))
REPO = os.environ.get("SWEEP_REPO", "/repo")  # a scratch worktree may be used instead of /repo


def main():
    assert sh("git -C %s status --porcelain --untracked-files=no" % REPO).stdout.strip() == "", "%s not clean" % REPO
    rows = []
    for arg in sys.argv[1:]:
        d, _, props = arg.partition(":")
        d = os.path.abspath(d.rstrip("/"))
        meta = {}
        if os.path.exists(os.path.join(d, "meta.json")):
            meta = json.load(open(os.path.join(d, "meta.json")))
        props = props.split(",") if props else [meta.get("property")]
        r = sh("git -C %s apply %s/patch.diff" % (REPO, d))
        if r.returncode != 0:
            rows.append((d, "-", "PATCH DOES NOT APPLY: " + r.stdout.strip()[:200]))
            print("%-40s %-4s %s" % rows[-1], flush=True)
            continue
        try:
            for p in props:
                t0 = time.time()
                c = sh("cd %s && ASYNQ_VERIF_REPO=%s ./check %s --no-evidence %s" % (VERIF_DIR, REPO, p, os.environ.get("SWEEP_ARGS", "")))
                line = [l for l in c.stdout.splitlines() if l.startswith("violation:")]
                hitl = [l for l in c.stdout.splitlines() if "workers found a violation" in l]
                if line and hitl:
                    line[0] = line[0][:200] + " " + hitl[0]
                rows.append((os.path.basename(os.path.dirname(d)) + "/" + os.path.basename(d) if "/out/" in d else os.path.basename(d), p,
                             "exit=%d %.0fs %s" % (c.returncode, time.time() - t0, line[0][:260] if line else c.stdout.strip().splitlines()[-1][:200])))
                print("%-40s %-4s %s" % rows[-1], flush=True)
        finally:
            sh("git -C %s checkout -- ." % REPO)


main()
