#!/bin/sh
# Runs the repository's test suite against /repo's working tree in both modes:
#   pure   : scratch copy without compiled extensions (removed afterwards)
#   cy     : /repo itself after rebuilding its git-ignored in-place extensions
set -e
S=/var/tmp/asynq-repo-tests
rm -rf $S && mkdir -p $S
rsync -a --exclude '*.so' --exclude '*.c' --exclude '*.h' --exclude build --exclude .git /repo/ $S/
echo "== pure =="
(cd $S && PYTHONPATH=$S /venv/bin/python -m pytest -q -p no:cacheprovider --timeout=900 asynq 2>&1 | tail -4)
rm -rf $S
echo "== compiled (rebuild /repo in place) =="
(cd /repo && /venv/bin/python setup.py build_ext --inplace --force -j 16 >/var/tmp/asynq-repo-build.log 2>&1 && rm -rf build && /venv/bin/python -m pytest -q -p no:cacheprovider --timeout=900 asynq 2>&1 | tail -4)
