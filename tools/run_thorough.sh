#!/bin/bash
# usage: run_thorough.sh <budget_s> [props...] ; runs the thorough tier of each check (no evidence), one line per check
cd "$(dirname "$0")/.."
B=$1; shift
PROPS=${@:-C01 C02 C03 C04 C05 C06 C07 C08 C09 C10 C11 C12 C13 C14 C15 C16 C17 C18 C19 C20}
for p in $PROPS; do
  out=$(timeout $((B+300)) ./check $p --tier thorough --budget $B --no-evidence 2>&1); rc=$?
  echo "$p rc=$rc $(echo "$out" | grep -E '^\[C|violation:|HARNESS' | tail -2 | cut -c1-260 | tr '\n' ' ')"
done
