#!/bin/bash
# usage: run_all.sh <seed>... ; runs every quick check with each VERIF_SEED (no evidence written), prints one line per check
cd "$(dirname "$0")/.."
for s in "$@"; do
  for p in C01 C02 C03 C04 C05 C06 C07 C08 C09 C10 C11 C12 C13 C14 C15 C16 C17 C18 C19 C20; do
    out=$(VERIF_SEED=$s timeout 600 ./check $p --no-evidence 2>&1); rc=$?
    echo "seed=$s $p rc=$rc $(echo "$out" | grep -E '^\[C|violation:|HARNESS' | tail -2 | cut -c1-220 | tr '\n' ' ')"
  done
done
