#!/venv/bin/python
"""Copies verified sub-agent mutants from /tmp/wt/out into /verif/seeded/<id>/ (patch.diff, demo.py,
notes.md, meta.json) and writes seeded/README.md from sweep result files.
usage: assemble_seeded.py <sweep-output-file>..."""
import glob
import json
import os
import re
import shutil
import sys

VERIF = os.path.dirname(os.path.dirname(os.path.abspath(__file__)))
rows = {}
for f in sys.argv[1:]:
    for line in open(f):
        m = re.match(r"^(\S+)\s+(C\d\d|-)\s+(.*)$", line.rstrip())
        if m:
            rows.setdefault(m.group(1), []).append((m.group(2), m.group(3)))
verify = {}
for f in sorted(glob.glob("/tmp/wt/verify_report*.txt")):
    for line in open(f):
        if line.startswith("RESULT "):
            parts = line.split()
            verify[parts[1]] = line.strip()[len("RESULT "):]
table = []
for d in sorted(glob.glob("/tmp/wt/out/*/m*")):
    pdir = d.split("/")[-2]
    prop = re.search(r"C\d\d", pdir).group(0)
    mid = "%s-%s" % (pdir, d.split("/")[-1])
    key = "%s/%s" % (pdir, d.split("/")[-1])
    res = rows.get(key, [])
    v = verify.get(d, "")
    dead = "demo_mut_pure=0" in v and "demo_mut_cy=0" in v
    if dead or not res:
        print("skip %s (dead=%s, sweep rows=%d)" % (mid, dead, len(res)))
        continue
    dest = os.path.join(VERIF, "seeded", mid)
    os.makedirs(dest, exist_ok=True)
    for name in ("patch.diff", "demo.py", "notes.md", "patch.orig.diff"):
        if os.path.exists(os.path.join(d, name)):
            shutil.copy(os.path.join(d, name), os.path.join(dest, name))
    notes = open(os.path.join(d, "notes.md")).read() if os.path.exists(os.path.join(d, "notes.md")) else ""
    caught = [(p, r) for p, r in res if "exit=1" in r]
    meta = {
        "property": prop,
        "origin": "written by an independent sub-agent that was given only the property text and a scratch worktree (nothing from /verif)",
        "needs_to_manifest": notes.strip()[:1200],
        "ported": os.path.exists(os.path.join(d, "patch.orig.diff")),
        "confirmed_by_me": "tools/verify_mutant.sh in a scratch worktree of /repo HEAD: " + v,
        "checks_run": [{"property": p, "result": r} for p, r in res],
        "caught_at_quick_tier_by": sorted({p for p, r in caught}),
    }
    json.dump(meta, open(os.path.join(dest, "meta.json"), "w"), indent=1)
    table.append((mid, meta["property"], ", ".join("%s: %s" % (p, (re.search(r"check=(\S+)", r) or [None, "?"])[1]) for p, r in caught) or "NOT CAUGHT"))
for d in sorted(glob.glob(os.path.join(VERIF, "seeded", "revert-*"))):
    name = os.path.basename(d)
    res = rows.get(name, [])
    meta = json.load(open(os.path.join(d, "meta.json")))
    meta["checks_run"] = [{"property": p, "result": r} for p, r in res]
    caught = [(p, r) for p, r in res if "exit=1" in r]
    meta["caught_at_quick_tier_by"] = sorted({p for p, r in caught})
    json.dump(meta, open(os.path.join(d, "meta.json"), "w"), indent=1)
    table.append((name, meta["property"], ", ".join("%s: %s" % (p, (re.search(r"check=(\S+)", r) or [None, "?"])[1]) for p, r in caught) or "NOT CAUGHT"))
with open(os.path.join(VERIF, "seeded", "README.md"), "w") as f:
    f.write("# Seeded changes and the checks that catch them (quick tier, default VERIF_SEED)\n\n")
    f.write("Apply with `git -C /repo apply seeded/<id>/patch.diff`, run `./check <property>`, undo with `git -C /repo checkout -- .` "
            "(or `tools/sweep.py seeded/<id>`). `Cxx-mN`: written by independent sub-agents from the property text only; "
            "`revert-*`: reverse patch of a `fix:` commit, i.e. the original defect.\n\n")
    f.write("| seeded change | property | caught by (property: check name) |\n|---|---|---|\n")
    for row in table:
        f.write("| %s | %s | %s |\n" % row)
    f.write("""
Notes
* `R2Cxx` ... `R9Cxx` are later waves of independent sub-agent changes, all written against the repaired code: each agent was told
  what earlier waves had tried for its property and asked for a change of a different character (R3: compiled-build-only and
  two-cooperating-site changes; R4: two-site changes and legal-but-unusual API use; R5/R6: legal-but-unusual API use and
  faults at one specific point of a history; R7-R9: changes that are hard to hit by chance - thresholds, coincidences of
  conditions, event orders, odd user objects, rarely used entry points, compiled-only).
* `sweep_default_seed.txt` is the raw output of the last sweep (one row per seeded change and check, with the earliest violating
  case and how many of the 16 workers found one); `sweep_seed_1.txt` is the same for VERIF_SEED=1 (its last 26 rows: the ninth wave and the entries re-based onto the last fix).
* `C08-m1` / `C08-m2` of the first C08 sub-agent are not kept: after the fixes b5054cf (failing lazy Future no longer escapes) and
  046c437 (scheduled batches are cleared when the outermost wait ends) their demonstrations pass on the mutated tree, i.e. they no longer
  break the property; `C08b-*` and `R2C08-*` were written against the repaired code.
* `ported: true` in a meta.json means the sub-agent's patch was re-based by hand onto the repaired /repo HEAD (`patch.orig.diff` is the
  patch as delivered); all patches in this directory apply to the current HEAD.
* Every row was produced by `tools/sweep.py` (apply, run the quick check(s) with the default seed, restore the tree). A change whose
  author was assigned property X but which breaks what property Y states is listed with the checks that report it.
* `NOT CAUGHT` rows are deliberate and explained in DESIGN.md section 10, as are the checks that had to be strengthened first.
""")
print("assembled %d entries" % len(table))
