#!/venv/bin/python
"""Regenerates /verif/MANIFEST.json from simq/catalog.py (single source of truth)."""
import json
import os
import sys

sys.path.insert(0, os.path.dirname(os.path.dirname(os.path.abspath(__file__))))
from simq.catalog import CATALOG, NOT_APPLICABLE, FIX_COMMITS  # noqa: E402

checks = []
for pid in sorted(CATALOG):
    c = CATALOG[pid]
    checks.append({
        "property_id": pid,
        "quick_cmd": "./check %s --tier quick" % pid,
        "thorough_cmd": "./check %s --tier thorough" % pid,
        "evidence_file": "/verif/evidence/%s.json" % pid,
        "replay_cmd_template": "./check %s --replay {path}" % pid,
        "engine": "simq",
        "level_claimed": {"category": c["level"], "text": c["level_text"], "design_ref": c.get("design_ref", "DESIGN.md section 4 (%s)" % pid)},
        "level_note": c["level_note"],
        "technique": c.get("technique", "deterministic simulation with fault injection: seeded search over generated programs, flush schedules and fault plans on the real scheduler, judged against executable reference models"),
    })
m = {
    "version": 1,
    "setup_cmd": "cd /verif && /venv/bin/python -c 'from simq import build; r = build.ensure(); print(r)'",
    "hooks": {
        "guard": "ASYNQ_VERIF",
        "enable": "no source hook exists: every seam (get_priority/__hash__ of harness batches, module-level utime/time, debug options, event hooks) is already in the code; checks build pure and Cython copies of /repo's working tree into ${ASYNQ_VERIF_CACHE:-/var/tmp/asynq-verif}",
        "baseline_off_cmd": "cd /repo && /venv/bin/python -m pytest -ra -q -p no:cacheprovider --timeout=900 --continue-on-collection-errors",
        "source_commits": [],
        "add_only": True,
    },
    "engines": [{
        "name": "simq", "path": "/verif/simq",
        "serves_properties": sorted(CATALOG),
        "kind_free_text": "deterministic simulator for asynq: seeded program/history generator, real scheduler driven inside a stubbed world (batch service, clock, diagnostic streams), sequential and pass/flush reference models, in-run monitors, structural minimiser, replay",
    }],
    "checks": checks,
    "not_applicable": NOT_APPLICABLE,
    "notes": "Exit 0 = held on everything explored (KNOWN-FINDING lines possible); exit 1 = VIOLATION line with replay file; exit 2 = harness/build error. Genuine defects repaired in /repo by 'fix:' commits: %s (see KNOWN_FINDINGS.txt)." % ", ".join(FIX_COMMITS),
}
json.dump(m, open(os.path.join(os.path.dirname(os.path.dirname(os.path.abspath(__file__))), "MANIFEST.json"), "w"), indent=1)
print("MANIFEST.json written with %d checks, %d not_applicable" % (len(checks), len(NOT_APPLICABLE)))
