#!/bin/bash
# usage: verify_mutant.sh <mutant-dir> ; confirms in a scratch worktree of /repo HEAD that the patch applies,
# the existing tests pass with it (pure and compiled), and the demo fails with it and passes without.
D=$1
WT=/tmp/wt/verify_$$
git -C /repo worktree add --detach $WT HEAD >/dev/null 2>&1 || exit 3
trap "git -C /repo worktree remove --force $WT >/dev/null 2>&1" EXIT
cd $WT
res() { echo "$1"; }
PYT="/venv/bin/python -m pytest -q -p no:cacheprovider asynq --timeout=900 --deselect asynq/tests/test_pyright.py -x"
demo_orig=$(PYTHONPATH=$WT timeout 300 /venv/bin/python $D/demo.py >/dev/null 2>&1; echo $?)
if ! git apply $D/patch.diff 2>/tmp/wt/apply_err_$$; then echo "RESULT $D apply=FAIL $(head -c 200 /tmp/wt/apply_err_$$)"; exit 1; fi
pure=$(PYTHONPATH=$WT timeout 900 $PYT 2>&1 | tail -1)
demo_mut=$(PYTHONPATH=$WT timeout 300 /venv/bin/python $D/demo.py >/dev/null 2>&1; echo $?)
/venv/bin/python setup.py build_ext --inplace -j8 >/dev/null 2>&1
nso=$(ls asynq/*.so 2>/dev/null | wc -l)
cy=$(PYTHONPATH=$WT timeout 900 $PYT 2>&1 | tail -1)
demo_mut_cy=$(PYTHONPATH=$WT timeout 300 /venv/bin/python $D/demo.py >/dev/null 2>&1; echo $?)
rm -rf build asynq/*.so asynq/*.c asynq/*.h
echo "RESULT $D apply=ok demo_orig=$demo_orig demo_mut_pure=$demo_mut demo_mut_cy=$demo_mut_cy nso=$nso | pure: $pure | cy: $cy"
