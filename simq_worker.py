import sys
import traceback

try:
    from simq.worker import main
    rc = main()
except SystemExit:
    raise
except BaseException:
    traceback.print_exc(file=sys.__stderr__)
    sys.__stderr__.flush()
    rc = 1
sys.exit(rc)
