import sys
from simq.worker import main
sys.exit(main())
